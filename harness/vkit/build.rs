// Builds the kernel-derived layout table: gen_probe.py parses the installed uapi header,
// gcc compiles the probe, its output becomes $OUT_DIR/klayout.rs.
use std::process::Command;
fn main() {
    let out = std::env::var("OUT_DIR").unwrap();
    let hdr = "/usr/include/linux/fuse.h";
    println!("cargo:rerun-if-changed=abi/gen_probe.py");
    println!("cargo:rerun-if-changed={}", hdr);
    println!("cargo:rerun-if-changed=build.rs");
    println!("cargo:rustc-check-cfg=cfg(fuse_backend_rs_verif)");
    let c = Command::new("python3").args(["abi/gen_probe.py", hdr]).output().expect("python3");
    assert!(c.status.success(), "gen_probe failed: {}", String::from_utf8_lossy(&c.stderr));
    let cpath = format!("{}/probe.c", out);
    std::fs::write(&cpath, &c.stdout).unwrap();
    let exe = format!("{}/probe", out);
    let s = Command::new("gcc").args(["-O0", "-o", &exe, &cpath]).status().expect("gcc");
    assert!(s.success(), "gcc failed on probe.c");
    let p = Command::new(&exe).output().expect("probe");
    assert!(p.status.success());
    std::fs::write(format!("{}/klayout.rs", out), &p.stdout).unwrap();
}

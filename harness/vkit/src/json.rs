//! Minimal JSON value + writer (the driver parses; the harness only emits).
use std::fmt::Write;

#[derive(Clone, Debug, PartialEq)]
pub enum J {
    Null,
    Bool(bool),
    U(u64),
    I(i64),
    S(String),
    A(Vec<J>),
    O(Vec<(String, J)>),
}

impl J {
    pub fn s<T: AsRef<str>>(t: T) -> J {
        J::S(t.as_ref().to_string())
    }
    pub fn obj(v: Vec<(&str, J)>) -> J {
        J::O(v.into_iter().map(|(k, v)| (k.to_string(), v)).collect())
    }
    /// bytes rendered printable where possible, otherwise hex — short enough for logs
    pub fn bytes(b: &[u8]) -> J {
        const MAX: usize = 96;
        let shown = &b[..b.len().min(MAX)];
        let mut s = String::new();
        if shown.iter().all(|c| (0x20..0x7f).contains(c) && *c != b'"' && *c != b'\\') && !shown.is_empty() {
            s.push_str("ascii:");
            s.push_str(std::str::from_utf8(shown).unwrap());
        } else {
            s.push_str("hex:");
            for c in shown {
                let _ = write!(s, "{:02x}", c);
            }
        }
        if b.len() > MAX {
            let _ = write!(s, "...(+{} bytes, len {})", b.len() - MAX, b.len());
        }
        J::S(s)
    }
    pub fn hex_full(b: &[u8]) -> J {
        let mut s = String::with_capacity(b.len() * 2);
        for c in b {
            let _ = write!(s, "{:02x}", c);
        }
        J::S(s)
    }
    pub fn dump(&self) -> String {
        let mut s = String::new();
        self.w(&mut s);
        s
    }
    fn w(&self, o: &mut String) {
        match self {
            J::Null => o.push_str("null"),
            J::Bool(b) => o.push_str(if *b { "true" } else { "false" }),
            J::U(u) => {
                let _ = write!(o, "{}", u);
            }
            J::I(i) => {
                let _ = write!(o, "{}", i);
            }
            J::S(s) => {
                o.push('"');
                for c in s.chars() {
                    match c {
                        '"' => o.push_str("\\\""),
                        '\\' => o.push_str("\\\\"),
                        '\n' => o.push_str("\\n"),
                        '\r' => o.push_str("\\r"),
                        '\t' => o.push_str("\\t"),
                        c if (c as u32) < 0x20 => {
                            let _ = write!(o, "\\u{:04x}", c as u32);
                        }
                        c => o.push(c),
                    }
                }
                o.push('"');
            }
            J::A(v) => {
                o.push('[');
                for (i, x) in v.iter().enumerate() {
                    if i > 0 {
                        o.push(',');
                    }
                    x.w(o);
                }
                o.push(']');
            }
            J::O(v) => {
                o.push('{');
                for (i, (k, x)) in v.iter().enumerate() {
                    if i > 0 {
                        o.push(',');
                    }
                    J::S(k.clone()).w(o);
                    o.push(':');
                    x.w(o);
                }
                o.push('}');
            }
        }
    }
}

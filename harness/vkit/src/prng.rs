//! SplitMix64: every random choice of every harness derives from (VERIF_SEED, property, shard, case).
#[derive(Clone, Debug)]
pub struct Rng(pub u64);

pub fn mix(mut z: u64) -> u64 {
    z = z.wrapping_add(0x9E3779B97F4A7C15);
    z = (z ^ (z >> 30)).wrapping_mul(0xBF58476D1CE4E5B9);
    z = (z ^ (z >> 27)).wrapping_mul(0x94D049BB133111EB);
    z ^ (z >> 31)
}

pub fn hash_bytes(b: &[u8]) -> u64 {
    let mut h = 0xcbf29ce484222325u64;
    for &x in b {
        h ^= x as u64;
        h = h.wrapping_mul(0x100000001b3);
    }
    mix(h)
}

pub fn hash_str(s: &str) -> u64 {
    hash_bytes(s.as_bytes())
}

impl Rng {
    pub fn new(seed: u64) -> Rng {
        Rng(mix(seed ^ 0xA5A5_5A5A_1234_5678))
    }
    /// Derive an independent stream for (tag, a, b).
    pub fn derive(seed: u64, tag: &str, a: u64, b: u64) -> Rng {
        Rng(mix(mix(mix(seed ^ hash_str(tag)) ^ a.wrapping_mul(0x9E3779B97F4A7C15)) ^ b.wrapping_mul(0xD1B54A32D192ED03)))
    }
    pub fn next(&mut self) -> u64 {
        self.0 = self.0.wrapping_add(0x9E3779B97F4A7C15);
        let mut z = self.0;
        z = (z ^ (z >> 30)).wrapping_mul(0xBF58476D1CE4E5B9);
        z = (z ^ (z >> 27)).wrapping_mul(0x94D049BB133111EB);
        z ^ (z >> 31)
    }
    pub fn below(&mut self, n: u64) -> u64 {
        if n == 0 {
            0
        } else {
            self.next() % n
        }
    }
    pub fn range(&mut self, lo: u64, hi_incl: u64) -> u64 {
        lo + self.below(hi_incl - lo + 1)
    }
    pub fn chance(&mut self, num: u64, den: u64) -> bool {
        self.below(den) < num
    }
    pub fn pick<'a, T>(&mut self, v: &'a [T]) -> &'a T {
        &v[self.below(v.len() as u64) as usize]
    }
    pub fn bytes(&mut self, n: usize) -> Vec<u8> {
        let mut v = Vec::with_capacity(n);
        while v.len() < n {
            let x = self.next().to_le_bytes();
            let k = (n - v.len()).min(8);
            v.extend_from_slice(&x[..k]);
        }
        v
    }
    /// Boundary-biased value of `bits` width.
    pub fn edge(&mut self, bits: u32) -> u64 {
        let max = if bits >= 64 { u64::MAX } else { (1u64 << bits) - 1 };
        let sign = 1u64 << (bits - 1);
        match self.below(12) {
            0 => 0,
            1 => 1,
            2 => max,
            3 => max - 1,
            4 => sign,
            5 => sign - 1,
            6 => sign + 1,
            7 => self.below(256),
            8 => 1u64 << self.below(bits as u64),
            _ => self.next() & max,
        }
    }
    /// A name without NUL or '/' bytes, length in [1, maxlen].
    pub fn name(&mut self, maxlen: usize) -> Vec<u8> {
        let len = match self.below(10) {
            0 => 1,
            1 => maxlen,
            2 => self.range(1, 8.min(maxlen as u64)) as usize,
            3 => 255.min(maxlen),
            _ => self.range(1, 64.min(maxlen as u64)) as usize,
        };
        self.name_len(len)
    }
    pub fn name_len(&mut self, len: usize) -> Vec<u8> {
        let mut v = self.bytes(len);
        for b in v.iter_mut() {
            if *b == 0 || *b == b'/' {
                *b = b'a' + (*b % 26).wrapping_add(0) % 26;
                if *b == 0 || *b == b'/' {
                    *b = b'x';
                }
            }
        }
        v
    }
}

//! Well-formed request generator. Requests are assembled field-by-field at the offsets of the
//! kernel-derived layout table (never through the crate's abi structs). For every request the
//! generator also states, from the protocol definition, which filesystem operation and which
//! argument values the request denotes (`expect`) — the C02 oracle.
use crate::klayout::{kconst, kfield, ksize, put};
use crate::prng::Rng;
use crate::scriptfs::V;

pub const IN_HDR: usize = 40;
pub const OUT_HDR: usize = 16;

#[derive(Clone, Debug)]
pub struct GenReq {
    pub opcode: u32,
    pub opname: &'static str,
    pub bytes: Vec<u8>,
    pub unique: u64,
    pub nodeid: u64,
    pub uid: u32,
    pub gid: u32,
    pub pid: u32,
    /// expected filesystem method and argument values (without uid/gid/pid); None = no fs call
    pub expect: Option<(&'static str, Vec<(&'static str, V)>)>,
    /// the protocol requires exactly one answer
    pub needs_reply: bool,
    /// requested payload size for READ/READDIR(PLUS)
    pub req_size: Option<u32>,
    /// coverage key fragment (flag combination, length classes)
    pub key: String,
    /// needs a FsCacheReqHandler to be served
    pub needs_vu: bool,
}

pub struct Body {
    pub b: Vec<u8>,
}

impl Body {
    pub fn new() -> Body {
        Body { b: Vec::new() }
    }
    /// append a zeroed kernel struct and return its base offset
    pub fn st(&mut self, name: &str) -> usize {
        let base = self.b.len();
        self.b.resize(base + ksize(name), 0);
        base
    }
    /// append a zeroed struct truncated to `len` bytes (compat layouts)
    pub fn st_compat(&mut self, len: usize) -> usize {
        let base = self.b.len();
        self.b.resize(base + len, 0);
        base
    }
    pub fn set(&mut self, base: usize, s: &str, f: &str, v: u64) {
        put(&mut self.b, base, s, f, v);
    }
    pub fn bytes(&mut self, d: &[u8]) {
        self.b.extend_from_slice(d);
    }
    pub fn cstr(&mut self, d: &[u8]) {
        self.b.extend_from_slice(d);
        self.b.push(0);
    }
}

pub fn header(opcode: u32, unique: u64, nodeid: u64, uid: u32, gid: u32, pid: u32, body: &[u8]) -> Vec<u8> {
    let mut m = vec![0u8; IN_HDR];
    assert_eq!(ksize("fuse_in_header"), IN_HDR);
    put(&mut m, 0, "fuse_in_header", "len", (IN_HDR + body.len()) as u64);
    put(&mut m, 0, "fuse_in_header", "opcode", opcode as u64);
    put(&mut m, 0, "fuse_in_header", "unique", unique);
    put(&mut m, 0, "fuse_in_header", "nodeid", nodeid);
    put(&mut m, 0, "fuse_in_header", "uid", uid as u64);
    put(&mut m, 0, "fuse_in_header", "gid", gid as u64);
    put(&mut m, 0, "fuse_in_header", "pid", pid as u64);
    m.extend_from_slice(body);
    m
}

pub fn set_len(m: &mut [u8], len: u32) {
    put(m, 0, "fuse_in_header", "len", len as u64);
}

/// (kernel opcode constant name, number of the opcode)
pub const OPS: &[&str] = &[
    "FUSE_LOOKUP",
    "FUSE_FORGET",
    "FUSE_GETATTR",
    "FUSE_SETATTR",
    "FUSE_READLINK",
    "FUSE_SYMLINK",
    "FUSE_MKNOD",
    "FUSE_MKDIR",
    "FUSE_UNLINK",
    "FUSE_RMDIR",
    "FUSE_RENAME",
    "FUSE_LINK",
    "FUSE_OPEN",
    "FUSE_READ",
    "FUSE_WRITE",
    "FUSE_STATFS",
    "FUSE_RELEASE",
    "FUSE_FSYNC",
    "FUSE_SETXATTR",
    "FUSE_GETXATTR",
    "FUSE_LISTXATTR",
    "FUSE_REMOVEXATTR",
    "FUSE_FLUSH",
    "FUSE_INIT",
    "FUSE_OPENDIR",
    "FUSE_READDIR",
    "FUSE_RELEASEDIR",
    "FUSE_FSYNCDIR",
    "FUSE_GETLK",
    "FUSE_SETLK",
    "FUSE_SETLKW",
    "FUSE_ACCESS",
    "FUSE_CREATE",
    "FUSE_INTERRUPT",
    "FUSE_BMAP",
    "FUSE_DESTROY",
    "FUSE_IOCTL",
    "FUSE_POLL",
    "FUSE_NOTIFY_REPLY",
    "FUSE_BATCH_FORGET",
    "FUSE_FALLOCATE",
    "FUSE_READDIRPLUS",
    "FUSE_RENAME2",
    "FUSE_LSEEK",
    "FUSE_COPY_FILE_RANGE",
    "FUSE_SETUPMAPPING",
    "FUSE_REMOVEMAPPING",
];

#[derive(Clone, Copy, Debug, PartialEq)]
pub struct GenOpts {
    /// upper bound for WRITE payloads / names
    pub max_payload: usize,
    /// allow names up to the buffer limit
    pub long_names: bool,
}

impl Default for GenOpts {
    fn default() -> Self {
        GenOpts { max_payload: 8192, long_names: true }
    }
}

fn flagword(r: &mut Rng, interesting: &[u64]) -> u64 {
    // each interesting bit independently, plus random other bits half of the time
    let mut v = 0u64;
    for b in interesting {
        if r.chance(1, 2) {
            v |= *b;
        }
    }
    if r.chance(1, 2) {
        v |= r.next() & 0xffff_ffff;
        // keep the interesting bits as chosen with probability 1/2
        if r.chance(1, 2) {
            for b in interesting {
                v &= !*b;
            }
            for b in interesting {
                if r.chance(1, 2) {
                    v |= *b;
                }
            }
        }
    }
    v & 0xffff_ffff
}

fn gname(r: &mut Rng, o: &GenOpts) -> Vec<u8> {
    if o.long_names && r.chance(1, 20) {
        let n = match r.below(3) {
            0 => 4095,
            1 => 256,
            _ => r.range(256, 4000) as usize,
        };
        r.name_len(n)
    } else {
        r.name(255)
    }
}

fn len_class(n: usize) -> &'static str {
    match n {
        0 => "0",
        1 => "1",
        2..=7 => "2-7",
        8..=63 => "8-63",
        64..=255 => "64-255",
        256..=4095 => "256-4095",
        4096..=65535 => "4k-64k",
        _ => "64k+",
    }
}

/// Generate one well-formed request of kernel opcode constant `opname`.
pub fn gen_request(r: &mut Rng, opname: &'static str, o: &GenOpts) -> GenReq {
    let opcode = kconst(opname) as u32;
    let unique = r.edge(64) | 1; // 0 is reserved for notifications; the kernel never uses it
    let nodeid = r.edge(64);
    let uid = r.edge(32) as u32;
    let gid = r.edge(32) as u32;
    let pid = r.edge(32) as u32;
    let mut b = Body::new();
    let expect: Option<(&'static str, Vec<(&'static str, V)>)>;
    let mut needs_reply = true;
    let mut req_size = None;
    let mut key = String::new();
    let mut needs_vu = false;
    let ino = ("inode", V::U(nodeid));
    match opname {
        "FUSE_LOOKUP" | "FUSE_UNLINK" | "FUSE_RMDIR" | "FUSE_REMOVEXATTR" => {
            let n = gname(r, o);
            b.cstr(&n);
            key = format!("name:{}", len_class(n.len()));
            let m = match opname {
                "FUSE_LOOKUP" => "lookup",
                "FUSE_UNLINK" => "unlink",
                "FUSE_RMDIR" => "rmdir",
                _ => "removexattr",
            };
            expect = Some((m, vec![ino, ("name", V::Bytes(n))]));
        }
        "FUSE_FORGET" => {
            let s = b.st("fuse_forget_in");
            let n = r.edge(64);
            b.set(s, "fuse_forget_in", "nlookup", n);
            needs_reply = false;
            expect = Some(("forget", vec![ino, ("count", V::U(n))]));
        }
        "FUSE_GETATTR" => {
            let s = b.st("fuse_getattr_in");
            let fl = flagword(r, &[kconst("FUSE_GETATTR_FH")]);
            let fh = r.edge(64);
            b.set(s, "fuse_getattr_in", "getattr_flags", fl);
            b.set(s, "fuse_getattr_in", "dummy", r.edge(32));
            b.set(s, "fuse_getattr_in", "fh", fh);
            let h = if fl & kconst("FUSE_GETATTR_FH") != 0 { Some(fh) } else { None };
            key = format!("fh:{}", h.is_some());
            expect = Some(("getattr", vec![ino, ("handle", V::OptU(h))]));
        }
        "FUSE_SETATTR" => {
            let s = b.st("fuse_setattr_in");
            let names = [
                "FATTR_MODE", "FATTR_UID", "FATTR_GID", "FATTR_SIZE", "FATTR_ATIME", "FATTR_MTIME", "FATTR_FH", "FATTR_ATIME_NOW", "FATTR_MTIME_NOW",
                "FATTR_LOCKOWNER", "FATTR_CTIME", "FATTR_KILL_SUIDGID",
            ];
            let bits: Vec<u64> = names.iter().map(|n| kconst(n)).collect();
            let valid = flagword(r, &bits);
            let fh = r.edge(64);
            let vals: Vec<(&str, u64, &'static str)> = vec![
                ("size", r.edge(64), "st_size"),
                ("atime", r.edge(64), "st_atime"),
                ("mtime", r.edge(64), "st_mtime"),
                ("ctime", r.edge(64), "st_ctime"),
                ("atimensec", r.edge(32), "st_atime_nsec"),
                ("mtimensec", r.edge(32), "st_mtime_nsec"),
                ("ctimensec", r.edge(32), "st_ctime_nsec"),
                ("mode", r.edge(32), "st_mode"),
                ("uid", r.edge(32), "st_uid"),
                ("gid", r.edge(32), "st_gid"),
            ];
            b.set(s, "fuse_setattr_in", "valid", valid);
            b.set(s, "fuse_setattr_in", "padding", r.edge(32));
            b.set(s, "fuse_setattr_in", "fh", fh);
            b.set(s, "fuse_setattr_in", "lock_owner", r.edge(64));
            b.set(s, "fuse_setattr_in", "unused4", r.edge(32));
            b.set(s, "fuse_setattr_in", "unused5", r.edge(32));
            let mut args = vec![ino];
            let h = if valid & kconst("FATTR_FH") != 0 { Some(fh) } else { None };
            args.push(("handle", V::OptU(h)));
            // `valid` as the filesystem sees it: the attribute-selection bits (FH / LOCKOWNER are
            // conveyed separately / not at all)
            let mut sel = 0u64;
            for n in names.iter() {
                if *n != "FATTR_FH" && *n != "FATTR_LOCKOWNER" {
                    sel |= kconst(n);
                }
            }
            args.push(("valid", V::U(valid & sel)));
            for (f, v, a) in vals {
                b.set(s, "fuse_setattr_in", f, v);
                args.push((a, V::U(v)));
            }
            key = format!("valid:{:#x}", valid & (sel | kconst("FATTR_FH")));
            expect = Some(("setattr", args));
        }
        "FUSE_READLINK" => {
            expect = Some(("readlink", vec![ino]));
        }
        "FUSE_SYMLINK" => {
            let n = gname(r, o);
            let t = if o.long_names && r.chance(1, 10) { r.name_len(4095) } else { r.name(300) };
            b.cstr(&n);
            b.cstr(&t);
            key = format!("name:{} target:{}", len_class(n.len()), len_class(t.len()));
            expect = Some(("symlink", vec![ino, ("name", V::Bytes(n)), ("linkname", V::Bytes(t))]));
        }
        "FUSE_MKNOD" => {
            let s = b.st("fuse_mknod_in");
            let (mode, rdev, umask) = (r.edge(32), r.edge(32), r.edge(32));
            b.set(s, "fuse_mknod_in", "mode", mode);
            b.set(s, "fuse_mknod_in", "rdev", rdev);
            b.set(s, "fuse_mknod_in", "umask", umask);
            b.set(s, "fuse_mknod_in", "padding", r.edge(32));
            let n = gname(r, o);
            b.cstr(&n);
            key = format!("name:{}", len_class(n.len()));
            expect = Some(("mknod", vec![ino, ("name", V::Bytes(n)), ("mode", V::U(mode)), ("rdev", V::U(rdev)), ("umask", V::U(umask))]));
        }
        "FUSE_MKDIR" => {
            let s = b.st("fuse_mkdir_in");
            let (mode, umask) = (r.edge(32), r.edge(32));
            b.set(s, "fuse_mkdir_in", "mode", mode);
            b.set(s, "fuse_mkdir_in", "umask", umask);
            let n = gname(r, o);
            b.cstr(&n);
            key = format!("name:{}", len_class(n.len()));
            expect = Some(("mkdir", vec![ino, ("name", V::Bytes(n)), ("mode", V::U(mode)), ("umask", V::U(umask))]));
        }
        "FUSE_RENAME" | "FUSE_RENAME2" => {
            let newdir = r.edge(64);
            let mut fl = 0;
            if opname == "FUSE_RENAME" {
                let s = b.st("fuse_rename_in");
                b.set(s, "fuse_rename_in", "newdir", newdir);
            } else {
                let s = b.st("fuse_rename2_in");
                // RENAME_NOREPLACE=1, RENAME_EXCHANGE=2, RENAME_WHITEOUT=4 (renameat2(2))
                let f = flagword(r, &[1, 2, 4]);
                b.set(s, "fuse_rename2_in", "newdir", newdir);
                b.set(s, "fuse_rename2_in", "flags", f);
                b.set(s, "fuse_rename2_in", "padding", r.edge(32));
                fl = f & 7;
            }
            let n1 = gname(r, o);
            let n2 = gname(r, o);
            b.cstr(&n1);
            b.cstr(&n2);
            key = format!("flags:{} old:{} new:{}", fl, len_class(n1.len()), len_class(n2.len()));
            expect = Some(("rename", vec![ino, ("oldname", V::Bytes(n1)), ("newdir", V::U(newdir)), ("newname", V::Bytes(n2)), ("flags", V::U(fl))]));
        }
        "FUSE_LINK" => {
            let s = b.st("fuse_link_in");
            let old = r.edge(64);
            b.set(s, "fuse_link_in", "oldnodeid", old);
            let n = gname(r, o);
            b.cstr(&n);
            key = format!("name:{}", len_class(n.len()));
            expect = Some(("link", vec![("inode", V::U(old)), ("newparent", V::U(nodeid)), ("name", V::Bytes(n))]));
        }
        "FUSE_OPEN" | "FUSE_OPENDIR" => {
            let s = b.st("fuse_open_in");
            let (fl, of) = (r.edge(32), r.edge(32));
            b.set(s, "fuse_open_in", "flags", fl);
            b.set(s, "fuse_open_in", "open_flags", of);
            if opname == "FUSE_OPEN" {
                expect = Some(("open", vec![ino, ("flags", V::U(fl)), ("fuse_flags", V::U(of))]));
            } else {
                expect = Some(("opendir", vec![ino, ("flags", V::U(fl))]));
            }
        }
        "FUSE_READ" | "FUSE_READDIR" | "FUSE_READDIRPLUS" => {
            let s = b.st("fuse_read_in");
            let fh = r.edge(64);
            let off = r.edge(64);
            let size = match r.below(8) {
                0 => 0,
                1 => 4096.min(o.max_payload as u64),
                2 => r.below(64),
                3 => 65536.min(o.max_payload as u64),
                _ => r.below(o.max_payload as u64 + 1),
            };
            let rf = flagword(r, &[kconst("FUSE_READ_LOCKOWNER")]);
            let lo = r.edge(64);
            let fl = r.edge(32);
            b.set(s, "fuse_read_in", "fh", fh);
            b.set(s, "fuse_read_in", "offset", off);
            b.set(s, "fuse_read_in", "size", size);
            b.set(s, "fuse_read_in", "read_flags", rf);
            b.set(s, "fuse_read_in", "lock_owner", lo);
            b.set(s, "fuse_read_in", "flags", fl);
            b.set(s, "fuse_read_in", "padding", r.edge(32));
            req_size = Some(size as u32);
            if opname == "FUSE_READ" {
                let owner = if rf & kconst("FUSE_READ_LOCKOWNER") != 0 { Some(lo) } else { None };
                key = format!("lockowner:{} size:{}", owner.is_some(), len_class(size as usize));
                expect = Some(("read", vec![ino, ("handle", V::U(fh)), ("size", V::U(size)), ("offset", V::U(off)), ("lock_owner", V::OptU(owner)), ("flags", V::U(fl))]));
            } else {
                key = format!("size:{}", len_class(size as usize));
                let m = if opname == "FUSE_READDIR" { "readdir" } else { "readdirplus" };
                expect = Some((m, vec![ino, ("handle", V::U(fh)), ("size", V::U(size)), ("offset", V::U(off))]));
            }
        }
        "FUSE_WRITE" => {
            let s = b.st("fuse_write_in");
            let fh = r.edge(64);
            let off = r.edge(64);
            let n = match r.below(8) {
                0 => 0,
                1 => 4096.min(o.max_payload),
                2 => o.max_payload,
                _ => r.below(o.max_payload as u64 + 1) as usize,
            };
            let wf = flagword(r, &[kconst("FUSE_WRITE_CACHE"), kconst("FUSE_WRITE_LOCKOWNER"), kconst("FUSE_WRITE_KILL_SUIDGID")]);
            let lo = r.edge(64);
            let fl = r.edge(32);
            b.set(s, "fuse_write_in", "fh", fh);
            b.set(s, "fuse_write_in", "offset", off);
            b.set(s, "fuse_write_in", "size", n as u64);
            b.set(s, "fuse_write_in", "write_flags", wf);
            b.set(s, "fuse_write_in", "lock_owner", lo);
            b.set(s, "fuse_write_in", "flags", fl);
            b.set(s, "fuse_write_in", "padding", r.edge(32));
            let data = r.bytes(n);
            b.bytes(&data);
            let owner = if wf & kconst("FUSE_WRITE_LOCKOWNER") != 0 { Some(lo) } else { None };
            let delayed = wf & kconst("FUSE_WRITE_CACHE") != 0;
            key = format!("lockowner:{} delayed:{} size:{}", owner.is_some(), delayed, len_class(n));
            expect = Some((
                "write",
                vec![
                    ino,
                    ("handle", V::U(fh)),
                    ("size", V::U(n as u64)),
                    ("offset", V::U(off)),
                    ("lock_owner", V::OptU(owner)),
                    ("delayed_write", V::B(delayed)),
                    ("flags", V::U(fl)),
                    ("fuse_flags", V::U(wf)),
                    ("data", V::Bytes(data)),
                ],
            ));
        }
        "FUSE_STATFS" => {
            expect = Some(("statfs", vec![ino]));
        }
        "FUSE_RELEASE" | "FUSE_RELEASEDIR" => {
            let s = b.st("fuse_release_in");
            let fh = r.edge(64);
            let fl = r.edge(32);
            let rf = flagword(r, &[kconst("FUSE_RELEASE_FLUSH"), kconst("FUSE_RELEASE_FLOCK_UNLOCK")]);
            let lo = r.edge(64);
            b.set(s, "fuse_release_in", "fh", fh);
            b.set(s, "fuse_release_in", "flags", fl);
            b.set(s, "fuse_release_in", "release_flags", rf);
            b.set(s, "fuse_release_in", "lock_owner", lo);
            if opname == "FUSE_RELEASE" {
                let flush = rf & kconst("FUSE_RELEASE_FLUSH") != 0;
                let un = rf & kconst("FUSE_RELEASE_FLOCK_UNLOCK") != 0;
                let owner = if flush || un { Some(lo) } else { None };
                key = format!("flush:{} unlock:{}", flush, un);
                expect = Some((
                    "release",
                    vec![ino, ("flags", V::U(fl)), ("handle", V::U(fh)), ("flush", V::B(flush)), ("flock_release", V::B(un)), ("lock_owner", V::OptU(owner))],
                ));
            } else {
                expect = Some(("releasedir", vec![ino, ("flags", V::U(fl)), ("handle", V::U(fh))]));
            }
        }
        "FUSE_FSYNC" | "FUSE_FSYNCDIR" => {
            let s = b.st("fuse_fsync_in");
            let fh = r.edge(64);
            let ff = flagword(r, &[kconst("FUSE_FSYNC_FDATASYNC")]);
            b.set(s, "fuse_fsync_in", "fh", fh);
            b.set(s, "fuse_fsync_in", "fsync_flags", ff);
            b.set(s, "fuse_fsync_in", "padding", r.edge(32));
            let ds = ff & kconst("FUSE_FSYNC_FDATASYNC") != 0;
            key = format!("datasync:{}", ds);
            let m = if opname == "FUSE_FSYNC" { "fsync" } else { "fsyncdir" };
            expect = Some((m, vec![ino, ("datasync", V::B(ds)), ("handle", V::U(fh))]));
        }
        "FUSE_SETXATTR" => {
            // FUSE_SETXATTR_EXT is never negotiated by this server, so the client sends the
            // 8-byte compat layout (size, flags).
            let clen = kconst("FUSE_COMPAT_SETXATTR_IN_SIZE") as usize;
            let s = b.st_compat(clen);
            let n = r.name(255);
            let vlen = match r.below(6) {
                0 => 0,
                1 => 65536.min(o.max_payload),
                _ => r.below(512) as usize,
            };
            let val = r.bytes(vlen);
            let fl = r.edge(32);
            b.set(s, "fuse_setxattr_in", "size", vlen as u64);
            b.set(s, "fuse_setxattr_in", "flags", fl);
            b.cstr(&n);
            b.bytes(&val);
            key = format!("name:{} value:{}", len_class(n.len()), len_class(vlen));
            expect = Some(("setxattr", vec![ino, ("name", V::Bytes(n)), ("value", V::Bytes(val)), ("flags", V::U(fl))]));
        }
        "FUSE_GETXATTR" => {
            let s = b.st("fuse_getxattr_in");
            let size = r.edge(32);
            b.set(s, "fuse_getxattr_in", "size", size);
            b.set(s, "fuse_getxattr_in", "padding", r.edge(32));
            let n = r.name(255);
            b.cstr(&n);
            key = format!("name:{}", len_class(n.len()));
            expect = Some(("getxattr", vec![ino, ("name", V::Bytes(n)), ("size", V::U(size))]));
        }
        "FUSE_LISTXATTR" => {
            let s = b.st("fuse_getxattr_in");
            let size = r.edge(32);
            b.set(s, "fuse_getxattr_in", "size", size);
            b.set(s, "fuse_getxattr_in", "padding", r.edge(32));
            expect = Some(("listxattr", vec![ino, ("size", V::U(size))]));
        }
        "FUSE_FLUSH" => {
            let s = b.st("fuse_flush_in");
            let fh = r.edge(64);
            let lo = r.edge(64);
            b.set(s, "fuse_flush_in", "fh", fh);
            b.set(s, "fuse_flush_in", "unused", r.edge(32));
            b.set(s, "fuse_flush_in", "padding", r.edge(32));
            b.set(s, "fuse_flush_in", "lock_owner", lo);
            expect = Some(("flush", vec![ino, ("handle", V::U(fh)), ("lock_owner", V::U(lo))]));
        }
        "FUSE_INIT" => {
            // plain 7.x INIT; the negotiation itself is C12's subject
            let s = b.st("fuse_init_in");
            b.set(s, "fuse_init_in", "major", 7);
            b.set(s, "fuse_init_in", "minor", r.range(5, 40));
            b.set(s, "fuse_init_in", "max_readahead", r.edge(32));
            let flags = r.edge(32) | kconst("FUSE_INIT_EXT");
            let flags2 = r.edge(32);
            b.set(s, "fuse_init_in", "flags", flags);
            b.set(s, "fuse_init_in", "flags2", flags2);
            expect = Some(("init", vec![]));
        }
        "FUSE_GETLK" | "FUSE_SETLK" | "FUSE_SETLKW" => {
            let s = b.st("fuse_lk_in");
            let (fh, owner, st, en, ty, pidv, lf) = (r.edge(64), r.edge(64), r.edge(64), r.edge(64), r.edge(32), r.edge(32), r.edge(32));
            b.set(s, "fuse_lk_in", "fh", fh);
            b.set(s, "fuse_lk_in", "owner", owner);
            b.set(s, "fuse_lk_in", "lk.start", st);
            b.set(s, "fuse_lk_in", "lk.end", en);
            b.set(s, "fuse_lk_in", "lk.type", ty);
            b.set(s, "fuse_lk_in", "lk.pid", pidv);
            b.set(s, "fuse_lk_in", "lk_flags", lf);
            b.set(s, "fuse_lk_in", "padding", r.edge(32));
            let m = match opname {
                "FUSE_GETLK" => "getlk",
                "FUSE_SETLK" => "setlk",
                _ => "setlkw",
            };
            expect = Some((
                m,
                vec![
                    ino,
                    ("handle", V::U(fh)),
                    ("owner", V::U(owner)),
                    ("lk_start", V::U(st)),
                    ("lk_end", V::U(en)),
                    ("lk_type", V::U(ty)),
                    ("lk_pid", V::U(pidv)),
                    ("flags", V::U(lf)),
                ],
            ));
        }
        "FUSE_ACCESS" => {
            let s = b.st("fuse_access_in");
            let mask = r.edge(32);
            b.set(s, "fuse_access_in", "mask", mask);
            b.set(s, "fuse_access_in", "padding", r.edge(32));
            expect = Some(("access", vec![ino, ("mask", V::U(mask))]));
        }
        "FUSE_CREATE" => {
            let s = b.st("fuse_create_in");
            let (fl, mode, umask, of) = (r.edge(32), r.edge(32), r.edge(32), r.edge(32));
            b.set(s, "fuse_create_in", "flags", fl);
            b.set(s, "fuse_create_in", "mode", mode);
            b.set(s, "fuse_create_in", "umask", umask);
            b.set(s, "fuse_create_in", "open_flags", of);
            let n = gname(r, o);
            b.cstr(&n);
            key = format!("name:{}", len_class(n.len()));
            expect = Some((
                "create",
                vec![ino, ("name", V::Bytes(n)), ("flags", V::U(fl)), ("mode", V::U(mode)), ("umask", V::U(umask)), ("fuse_flags", V::U(of))],
            ));
        }
        "FUSE_INTERRUPT" => {
            let s = b.st("fuse_interrupt_in");
            b.set(s, "fuse_interrupt_in", "unique", r.edge(64));
            needs_reply = false;
            expect = None;
        }
        "FUSE_BMAP" => {
            let s = b.st("fuse_bmap_in");
            let (bl, bs) = (r.edge(64), r.edge(32));
            b.set(s, "fuse_bmap_in", "block", bl);
            b.set(s, "fuse_bmap_in", "blocksize", bs);
            b.set(s, "fuse_bmap_in", "padding", r.edge(32));
            expect = Some(("bmap", vec![ino, ("block", V::U(bl)), ("blocksize", V::U(bs))]));
        }
        "FUSE_DESTROY" => {
            expect = Some(("destroy", vec![]));
        }
        "FUSE_IOCTL" => {
            let s = b.st("fuse_ioctl_in");
            let (fh, fl, cmd, arg, outsz) = (r.edge(64), r.edge(32), r.edge(32), r.edge(64), r.edge(32));
            let n = match r.below(5) {
                0 => 0,
                1 => 4096.min(o.max_payload),
                _ => r.below(256) as usize,
            };
            b.set(s, "fuse_ioctl_in", "fh", fh);
            b.set(s, "fuse_ioctl_in", "flags", fl);
            b.set(s, "fuse_ioctl_in", "cmd", cmd);
            b.set(s, "fuse_ioctl_in", "arg", arg);
            b.set(s, "fuse_ioctl_in", "in_size", n as u64);
            b.set(s, "fuse_ioctl_in", "out_size", outsz);
            let data = r.bytes(n);
            b.bytes(&data);
            key = format!("in:{}", len_class(n));
            expect = Some((
                "ioctl",
                vec![
                    ino,
                    ("handle", V::U(fh)),
                    ("flags", V::U(fl)),
                    ("cmd", V::U(cmd)),
                    ("in_data", V::Bytes(data)),
                    ("in_data_present", V::B(n > 0)),
                    ("out_size", V::U(outsz)),
                ],
            ));
        }
        "FUSE_POLL" => {
            let s = b.st("fuse_poll_in");
            let (fh, kh, fl, ev) = (r.edge(64), r.edge(64), r.edge(32), r.edge(32));
            b.set(s, "fuse_poll_in", "fh", fh);
            b.set(s, "fuse_poll_in", "kh", kh);
            b.set(s, "fuse_poll_in", "flags", fl);
            b.set(s, "fuse_poll_in", "events", ev);
            expect = Some(("poll", vec![ino, ("handle", V::U(fh)), ("khandle", V::U(kh)), ("flags", V::U(fl)), ("events", V::U(ev))]));
        }
        "FUSE_NOTIFY_REPLY" => {
            // answer to a FUSE_NOTIFY_RETRIEVE: the client expects no reply to it
            let s = b.st("fuse_notify_retrieve_in");
            b.set(s, "fuse_notify_retrieve_in", "offset", r.edge(64));
            b.set(s, "fuse_notify_retrieve_in", "size", 0);
            needs_reply = false;
            expect = Some(("notify_reply", vec![]));
        }
        "FUSE_BATCH_FORGET" => {
            let s = b.st("fuse_batch_forget_in");
            let cnt = match r.below(6) {
                0 => 0,
                1 => 1,
                2 => 255,
                _ => r.below(64),
            } as usize;
            b.set(s, "fuse_batch_forget_in", "count", cnt as u64);
            b.set(s, "fuse_batch_forget_in", "dummy", r.edge(32));
            let mut list = Vec::new();
            for _ in 0..cnt {
                let e = b.st("fuse_forget_one");
                let (n, l) = (r.edge(64), r.edge(64));
                b.set(e, "fuse_forget_one", "nodeid", n);
                b.set(e, "fuse_forget_one", "nlookup", l);
                list.push((n, l));
            }
            needs_reply = false;
            key = format!("count:{}", len_class(cnt));
            expect = Some(("batch_forget", vec![("requests", V::Pairs(list))]));
        }
        "FUSE_FALLOCATE" => {
            let s = b.st("fuse_fallocate_in");
            let (fh, off, len, mode) = (r.edge(64), r.edge(64), r.edge(64), r.edge(32));
            b.set(s, "fuse_fallocate_in", "fh", fh);
            b.set(s, "fuse_fallocate_in", "offset", off);
            b.set(s, "fuse_fallocate_in", "length", len);
            b.set(s, "fuse_fallocate_in", "mode", mode);
            b.set(s, "fuse_fallocate_in", "padding", r.edge(32));
            expect = Some(("fallocate", vec![ino, ("handle", V::U(fh)), ("mode", V::U(mode)), ("offset", V::U(off)), ("length", V::U(len))]));
        }
        "FUSE_LSEEK" => {
            let s = b.st("fuse_lseek_in");
            let (fh, off, wh) = (r.edge(64), r.edge(64), r.edge(32));
            b.set(s, "fuse_lseek_in", "fh", fh);
            b.set(s, "fuse_lseek_in", "offset", off);
            b.set(s, "fuse_lseek_in", "whence", wh);
            b.set(s, "fuse_lseek_in", "padding", r.edge(32));
            expect = Some(("lseek", vec![ino, ("handle", V::U(fh)), ("offset", V::U(off)), ("whence", V::U(wh))]));
        }
        "FUSE_COPY_FILE_RANGE" => {
            let s = b.st("fuse_copy_file_range_in");
            b.set(s, "fuse_copy_file_range_in", "fh_in", r.edge(64));
            b.set(s, "fuse_copy_file_range_in", "len", r.edge(64));
            // not implemented by the library: exactly one -ENOSYS, no filesystem call
            expect = None;
        }
        "FUSE_SETUPMAPPING" => {
            let s = b.st("fuse_setupmapping_in");
            let (fh, fo, len, fl, mo) = (r.edge(64), r.edge(64), r.edge(64), r.edge(64), r.edge(64));
            b.set(s, "fuse_setupmapping_in", "fh", fh);
            b.set(s, "fuse_setupmapping_in", "foffset", fo);
            b.set(s, "fuse_setupmapping_in", "len", len);
            b.set(s, "fuse_setupmapping_in", "flags", fl);
            b.set(s, "fuse_setupmapping_in", "moffset", mo);
            needs_vu = true;
            expect = Some(("setupmapping", vec![ino, ("handle", V::U(fh)), ("foffset", V::U(fo)), ("len", V::U(len)), ("flags", V::U(fl)), ("moffset", V::U(mo))]));
        }
        "FUSE_REMOVEMAPPING" => {
            let s = b.st("fuse_removemapping_in");
            let cnt = match r.below(5) {
                0 => 0,
                1 => 1,
                _ => r.below(40),
            } as usize;
            b.set(s, "fuse_removemapping_in", "count", cnt as u64);
            let mut list = Vec::new();
            for _ in 0..cnt {
                let e = b.st("fuse_removemapping_one");
                let (mo, l) = (r.edge(64), r.edge(64));
                b.set(e, "fuse_removemapping_one", "moffset", mo);
                b.set(e, "fuse_removemapping_one", "len", l);
                list.push((mo, l));
            }
            needs_vu = true;
            key = format!("count:{}", len_class(cnt));
            expect = Some(("removemapping", vec![ino, ("requests", V::Pairs(list))]));
        }
        other => panic!("gen_request: unknown op {}", other),
    }
    let _ = kfield("fuse_in_header", "len");
    let bytes = header(opcode, unique, nodeid, uid, gid, pid, &b.b);
    GenReq { opcode, opname, bytes, unique, nodeid, uid, gid, pid, expect, needs_reply, req_size, key, needs_vu }
}

//! Transports the in-process client presents to `Server::handle_message`, with canaries.
//!
//! * fusedev: request / reply buffers embedded in a guard-banded arena; the "device" is one end of
//!   an AF_UNIX SOCK_SEQPACKET socketpair so every write()/writev() of the crate arrives as ONE
//!   record (write-call boundaries are observed directly).
//! * virtio-fs: `GuestMemoryMmap<AtomicBitmap>` + a descriptor chain built with MockSplitQueue from
//!   an arbitrary shape; guest memory is pattern-filled so the exact set of modified bytes and the
//!   exact set of dirty pages are computed after the call.
use std::cell::RefCell;
use std::panic::{catch_unwind, AssertUnwindSafe};

use fuse_backend_rs::api::filesystem::FileSystem;
use fuse_backend_rs::api::server::Server;
use fuse_backend_rs::transport::{FsCacheReqHandler, Reader, VirtioFsWriter, Writer};
#[cfg(not(miri))]
use fuse_backend_rs::transport::{FuseBuf, FuseDevWriter};
use virtio_queue::desc::{split::Descriptor as SplitDescriptor, RawDescriptor};
use virtio_queue::mock::MockSplitQueue;
use vm_memory::bitmap::{AtomicBitmap, Bitmap};
use vm_memory::{GuestAddress, GuestMemory, GuestMemoryMmap, GuestMemoryRegion};

pub type GM = GuestMemoryMmap<AtomicBitmap>;

thread_local! {
    static LAST_PANIC: RefCell<Option<String>> = const { RefCell::new(None) };
    static IN_GUARD: std::cell::Cell<u32> = const { std::cell::Cell::new(0) };
}

/// Install a quiet panic hook that records message + location for the violation report.
pub fn install_panic_hook() {
    std::panic::set_hook(Box::new(|info| {
        let msg = if let Some(s) = info.payload().downcast_ref::<&str>() {
            s.to_string()
        } else if let Some(s) = info.payload().downcast_ref::<String>() {
            s.clone()
        } else {
            "<non-string panic>".to_string()
        };
        let loc = info.location().map(|l| format!("{}:{}", l.file(), l.line())).unwrap_or_default();
        if IN_GUARD.with(|g| g.get()) == 0 {
            // a panic of the harness itself: never silent
            eprintln!("HARNESS-PANIC: {} @ {}", msg, loc);
        }
        LAST_PANIC.with(|p| *p.borrow_mut() = Some(format!("{} @ {}", msg, loc)));
    }));
}

pub fn take_panic() -> Option<String> {
    LAST_PANIC.with(|p| p.borrow_mut().take())
}

/// Run `f`, returning Err(panic description) if it panicked.
pub fn guarded<T>(f: impl FnOnce() -> T) -> Result<T, String> {
    IN_GUARD.with(|g| g.set(g.get() + 1));
    let r = catch_unwind(AssertUnwindSafe(f));
    IN_GUARD.with(|g| g.set(g.get() - 1));
    match r {
        Ok(v) => Ok(v),
        Err(_) => Err(take_panic().unwrap_or_else(|| "<panic>".to_string())),
    }
}

pub fn pattern(region: usize, off: usize) -> u8 {
    let x = (off as u64).wrapping_mul(0x9E37_79B9).wrapping_add(region as u64 * 0x51) ^ ((off as u64) >> 7);
    (x ^ (x >> 13)) as u8 | 0x01
}

// ------------------------------------------------------------------------------------------------
// fusedev
// ------------------------------------------------------------------------------------------------

#[cfg(not(miri))]
pub struct SeqSock {
    pub wr: i32,
    pub rd: i32,
}

#[cfg(not(miri))]
impl SeqSock {
    pub fn new() -> SeqSock {
        let mut fds = [0i32; 2];
        let r = unsafe { libc::socketpair(libc::AF_UNIX, libc::SOCK_SEQPACKET | libc::SOCK_CLOEXEC, 0, fds.as_mut_ptr()) };
        assert_eq!(r, 0, "socketpair");
        let sz: libc::c_int = 8 << 20;
        unsafe {
            let p = &sz as *const _ as *const libc::c_void;
            let r1 = libc::setsockopt(fds[0], libc::SOL_SOCKET, libc::SO_SNDBUFFORCE, p, 4);
            let r2 = libc::setsockopt(fds[1], libc::SOL_SOCKET, libc::SO_RCVBUFFORCE, p, 4);
            assert!(r1 == 0 && r2 == 0, "SO_SNDBUFFORCE/SO_RCVBUFFORCE (need root)");
        }
        SeqSock { wr: fds[0], rd: fds[1] }
    }
    /// Drain every record currently queued (one per write call of the server).
    pub fn drain(&self) -> Vec<Vec<u8>> {
        let mut out = Vec::new();
        let mut buf = vec![0u8; 64 * 1024];
        loop {
            // peek length first (MSG_TRUNC returns the real record size)
            let n = unsafe {
                libc::recv(self.rd, buf.as_mut_ptr() as *mut _, buf.len(), libc::MSG_DONTWAIT | libc::MSG_PEEK | libc::MSG_TRUNC)
            };
            if n < 0 {
                break;
            }
            let n = n as usize;
            if n > buf.len() {
                buf.resize(n, 0);
            }
            let m = unsafe { libc::recv(self.rd, buf.as_mut_ptr() as *mut _, buf.len(), libc::MSG_DONTWAIT) };
            if m < 0 {
                break;
            }
            out.push(buf[..m as usize].to_vec());
        }
        out
    }
}

#[cfg(not(miri))]
impl Drop for SeqSock {
    fn drop(&mut self) {
        unsafe {
            libc::close(self.wr);
            libc::close(self.rd);
        }
    }
}

#[derive(Debug, Clone)]
pub struct Outcome {
    /// Ok(n) / Err(debug text) as returned by handle_message
    pub ret: Result<usize, String>,
    pub panic: Option<String>,
    /// fusedev: one element per write call; virtio: at most one element = bytes of the reply area
    /// [0, len) when any writable byte was modified
    pub records: Vec<Vec<u8>>,
    /// description of any byte modified outside the supplied buffers / outside the reply
    pub stray: Option<String>,
    /// virtio only: (region, page) pairs marked dirty
    pub dirty: Vec<(usize, usize)>,
    /// virtio only: (region, page) pairs containing at least one modified byte
    pub touched_pages: Vec<(usize, usize)>,
    /// virtio only: number of modified bytes inside the writable area (prefix-length view)
    pub modified_prefix: usize,
    pub transport: &'static str,
}

pub const GUARD: usize = 256;

/// One request over the /dev/fuse transport. `cap` = reply buffer capacity. In aliased mode the
/// writer covers the same memory as the reader (FuseChannel::get_request's layout): buffer size
/// max(req.len(), cap).
#[cfg(not(miri))]
pub fn run_fusedev<F: FileSystem + Sync>(
    srv: &Server<F>,
    sock: &SeqSock,
    req: &[u8],
    cap: usize,
    aliased: bool,
    vu: Option<&mut dyn FsCacheReqHandler>,
) -> Outcome {
    run_fusedev_with(sock, req, cap, aliased, move |reader, writer| srv.handle_message(reader, writer, vu, None).map_err(|e| format!("{:?}", e)))
}

/// What stands in for /dev/fuse: a descriptor the crate writes replies to and a way to collect them.
#[cfg(not(miri))]
pub trait Sink {
    fn fd(&self) -> std::os::unix::io::RawFd;
    fn drain(&self) -> Vec<Vec<u8>>;
}

#[cfg(not(miri))]
impl Sink for SeqSock {
    fn fd(&self) -> std::os::unix::io::RawFd {
        self.wr
    }
    fn drain(&self) -> Vec<Vec<u8>> {
        SeqSock::drain(self)
    }
}

/// A memfd as the device: needed where the crate uses pwrite() (the asynchronous writer), which a
/// socket refuses. Write-call boundaries are not observable here; drain() returns the concatenation
/// of everything written as one record (none when nothing was written).
#[cfg(not(miri))]
pub struct FileSink {
    f: std::fs::File,
}

#[cfg(not(miri))]
impl FileSink {
    pub fn new() -> FileSink {
        use std::os::unix::io::FromRawFd;
        let fd = unsafe { libc::memfd_create(b"vkit-sink\0".as_ptr() as *const libc::c_char, 0) };
        assert!(fd >= 0, "memfd_create");
        // O_APPEND: every write()/writev()/pwrite() lands behind the previous one whatever its offset,
        // so the content is the concatenation of all write calls (a second write cannot hide the first)
        unsafe { libc::fcntl(fd, libc::F_SETFL, libc::O_APPEND) };
        FileSink { f: unsafe { std::fs::File::from_raw_fd(fd) } }
    }
}

#[cfg(not(miri))]
impl Sink for FileSink {
    fn fd(&self) -> std::os::unix::io::RawFd {
        use std::os::unix::io::AsRawFd;
        self.f.as_raw_fd()
    }
    fn drain(&self) -> Vec<Vec<u8>> {
        use std::os::unix::fs::FileExt;
        use std::os::unix::io::AsRawFd;
        let len = self.f.metadata().map(|m| m.len()).unwrap_or(0) as usize;
        let mut v = vec![0u8; len];
        let mut got = 0;
        while got < len {
            match self.f.read_at(&mut v[got..], got as u64) {
                Ok(0) | Err(_) => break,
                Ok(n) => got += n,
            }
        }
        v.truncate(got);
        unsafe {
            libc::ftruncate(self.f.as_raw_fd(), 0);
            libc::lseek(self.f.as_raw_fd(), 0, libc::SEEK_SET);
        }
        if v.is_empty() {
            vec![]
        } else {
            vec![v]
        }
    }
}

/// One request over the /dev/fuse transport, the handler call supplied by the caller.
#[cfg(not(miri))]
pub fn run_fusedev_with<K: Sink>(
    sock: &K,
    req: &[u8],
    cap: usize,
    aliased: bool,
    call: impl for<'a> FnOnce(Reader<'a, ()>, Writer<'a, ()>) -> Result<usize, String>,
) -> Outcome {
    // arena: [guard][req or shared buf][guard][reply][guard]
    let a_len = if aliased { req.len().max(cap) } else { req.len() };
    let b_len = if aliased { 0 } else { cap };
    let total = GUARD + a_len + GUARD + b_len + GUARD;
    let mut arena = vec![0u8; total];
    for (i, b) in arena.iter_mut().enumerate() {
        *b = pattern(7, i);
    }
    let a_off = GUARD;
    let b_off = GUARD + a_len + GUARD;
    arena[a_off..a_off + req.len()].copy_from_slice(req);
    let base = arena.as_mut_ptr();
    let ret;
    {
        // Safety: disjoint sub-slices of the arena (or, in aliased mode, deliberately the same
        // memory, exactly as FuseChannel::get_request does).
        let rbuf: &mut [u8] = unsafe { std::slice::from_raw_parts_mut(base.add(a_off), req.len()) };
        let wbuf: &mut [u8] = if aliased {
            unsafe { std::slice::from_raw_parts_mut(base.add(a_off), a_len) }
        } else {
            unsafe { std::slice::from_raw_parts_mut(base.add(b_off), b_len) }
        };
        let fd = sock.fd();
        ret = guarded(move || {
            let reader: Reader<'_, ()> = Reader::from_fuse_buffer(FuseBuf::new(rbuf)).unwrap();
            let writer = FuseDevWriter::<()>::new(fd, wbuf).unwrap();
            call(reader, Writer::FuseDev(writer))
        });
    }
    let records = sock.drain();
    // guards
    let mut stray = None;
    let mut check = |lo: usize, hi: usize, what: &str| {
        for i in lo..hi {
            if arena[i] != pattern(7, i) && stray.is_none() {
                stray = Some(format!("{} guard byte at arena+{} modified ({:#x} -> {:#x})", what, i, pattern(7, i), arena[i]));
            }
        }
    };
    check(0, GUARD, "leading");
    check(GUARD + a_len, GUARD + a_len + GUARD, "middle");
    check(b_off + b_len, total, "trailing");
    if !aliased {
        // separate buffers: the request buffer is read-only for the server
        if &arena[a_off..a_off + req.len()] != req && stray.is_none() {
            stray = Some("request buffer modified although a separate reply buffer was supplied".to_string());
        }
    }
    let (ret, panic) = match ret {
        Ok(r) => (r, None),
        Err(p) => (Err("panic".to_string()), Some(p)),
    };
    Outcome {
        ret,
        panic,
        records,
        stray,
        dirty: vec![],
        touched_pages: vec![],
        modified_prefix: 0,
        transport: if aliased { "fusedev-aliased" } else { "fusedev" },
    }
}

// ------------------------------------------------------------------------------------------------
// virtio-fs
// ------------------------------------------------------------------------------------------------

#[derive(Clone, Debug, PartialEq)]
pub struct Seg {
    pub writable: bool,
    /// data region index (0-based; region 0 of guest memory is the queue metadata)
    pub region: usize,
    pub off: usize,
    pub len: usize,
}

#[derive(Clone, Debug, PartialEq)]
pub struct VShape {
    /// size in bytes (page multiple) of each data region
    pub regions: Vec<usize>,
    pub segs: Vec<Seg>,
}

pub const QUEUE_REGION: usize = if cfg!(miri) { 0x2000 } else { 0x10000 };
pub const REGION_STRIDE: u64 = 0x1000_0000;
pub const PAGE: usize = 4096;

impl VShape {
    pub fn readable_len(&self) -> usize {
        self.segs.iter().filter(|s| !s.writable).map(|s| s.len).sum()
    }
    pub fn writable_len(&self) -> usize {
        self.segs.iter().filter(|s| s.writable).map(|s| s.len).sum()
    }
    pub fn describe(&self) -> String {
        let mut s = String::new();
        for g in &self.segs {
            s.push_str(&format!("{}{}@{}+{:#x} ", if g.writable { "W" } else { "R" }, g.len, g.region, g.off));
        }
        s
    }
    /// Build a shape for `rlen` readable bytes cut at `rcuts` and `wlen` writable bytes cut at
    /// `wcuts` (cut positions are byte offsets; zero-length segments arise from repeated cuts).
    /// Segments are laid out in `nregions` regions with `gap(i)` bytes before segment i.
    pub fn layout(rlen: usize, rcuts: &[usize], wlen: usize, wcuts: &[usize], nregions: usize, gaps: &[usize], start: usize) -> VShape {
        let mut lens: Vec<(bool, usize)> = Vec::new();
        let mut push = |w: bool, total: usize, cuts: &[usize]| {
            let mut c: Vec<usize> = cuts.iter().map(|x| (*x).min(total)).collect();
            c.sort();
            let mut prev = 0;
            for x in c {
                lens.push((w, x - prev));
                prev = x;
            }
            lens.push((w, total - prev));
        };
        push(false, rlen, rcuts);
        push(true, wlen, wcuts);
        let nregions = nregions.max(1);
        let mut cursors = vec![start; nregions];
        let mut segs = Vec::new();
        for (i, (w, len)) in lens.iter().enumerate() {
            let region = if nregions == 1 { 0 } else { i % nregions };
            let gap = if gaps.is_empty() { 0 } else { gaps[i % gaps.len()] };
            let off = cursors[region] + gap;
            segs.push(Seg { writable: *w, region, off, len: *len });
            cursors[region] = off + len;
        }
        let regions = cursors.iter().map(|c| ((c + 64 + PAGE - 1) / PAGE) * PAGE + if cfg!(miri) { 0 } else { PAGE }).collect();
        VShape { regions, segs }
    }
}

pub struct VMem {
    pub mem: GM,
    pub shape: VShape,
    /// copy of every data region taken after the request was placed
    pub snap: Vec<Vec<u8>>,
}

impl VMem {
    pub fn new(shape: &VShape) -> VMem {
        let mut ranges = vec![(GuestAddress(0), QUEUE_REGION)];
        for (i, sz) in shape.regions.iter().enumerate() {
            ranges.push((GuestAddress(REGION_STRIDE * (i as u64 + 1)), *sz));
        }
        let mem = GM::from_ranges(&ranges).expect("guest memory");
        let mut v = VMem { mem, shape: shape.clone(), snap: vec![] };
        for (i, sz) in shape.regions.iter().enumerate() {
            let p = v.host(i, 0);
            if cfg!(miri) {
                // one interpreter step instead of one per byte
                unsafe { std::ptr::write_bytes(p, 0xA5, *sz) };
            } else {
                for o in 0..*sz {
                    unsafe { *p.add(o) = pattern(i, o) };
                }
            }
        }
        v.snapshot();
        v
    }
    pub fn snapshot(&mut self) {
        self.snap = (0..self.shape.regions.len())
            .map(|i| unsafe { std::slice::from_raw_parts(self.host(i, 0), self.shape.regions[i]) }.to_vec())
            .collect();
    }
    pub fn gpa(region: usize, off: usize) -> u64 {
        REGION_STRIDE * (region as u64 + 1) + off as u64
    }
    pub fn host(&self, region: usize, off: usize) -> *mut u8 {
        self.mem.get_host_address(GuestAddress(Self::gpa(region, off))).expect("host address")
    }
    /// Place the request bytes into the readable segments through raw host pointers (no bitmap
    /// side effects). Returns how many bytes fitted.
    pub fn place_request(&mut self, req: &[u8]) -> usize {
        let mut pos = 0;
        for s in self.shape.segs.iter().filter(|s| !s.writable) {
            let n = s.len.min(req.len() - pos);
            if n > 0 {
                unsafe { std::ptr::copy_nonoverlapping(req.as_ptr().add(pos), self.host(s.region, s.off), n) };
            }
            pos += n;
        }
        self.snapshot();
        pos
    }
    pub fn reset_bitmaps(&self) {
        for r in self.mem.iter() {
            let mr: &vm_memory::MmapRegion<AtomicBitmap> = std::ops::Deref::deref(r);
            mr.bitmap().reset();
        }
    }
    pub fn dirty_pages(&self) -> Vec<(usize, usize)> {
        let mut v = Vec::new();
        for (i, sz) in self.shape.regions.iter().enumerate() {
            let region = self.mem.find_region(GuestAddress(Self::gpa(i, 0))).unwrap();
            for p in 0..(*sz / PAGE) {
                if region.bitmap().dirty_at(p * PAGE) {
                    v.push((i, p));
                }
            }
        }
        v
    }
    pub fn queue_region_dirty(&self) -> bool {
        let region = self.mem.find_region(GuestAddress(0)).unwrap();
        (0..QUEUE_REGION / PAGE).any(|p| region.bitmap().dirty_at(p * PAGE))
    }
    pub fn chain_descs(&self) -> Vec<RawDescriptor> {
        self.shape
            .segs
            .iter()
            .map(|s| {
                let flags = if s.writable { 2u16 } else { 0u16 }; // VRING_DESC_F_WRITE
                RawDescriptor::from(SplitDescriptor::new(Self::gpa(s.region, s.off), s.len as u32, flags, 0))
            })
            .collect()
    }
}

/// What the server did to guest memory, in terms of the chain.
pub struct VDiff {
    /// concatenation of all writable segments after the call
    pub wbytes: Vec<u8>,
    /// per byte of `wbytes`: was it modified?
    pub wmod: Vec<bool>,
    pub stray: Option<String>,
    pub touched_pages: Vec<(usize, usize)>,
}

impl VMem {
    pub fn diff(&self) -> VDiff {
        let mut stray = None;
        let mut touched = std::collections::BTreeSet::new();
        let mut wbytes = Vec::with_capacity(self.shape.writable_len());
        let mut wmod = Vec::with_capacity(self.shape.writable_len());
        for (ri, sz) in self.shape.regions.iter().enumerate() {
            let p = self.host(ri, 0);
            let cur = unsafe { std::slice::from_raw_parts(p, *sz) };
            let snap = &self.snap[ri];
            // pages containing a modified byte (slice compares: one step per page)
            for pg in 0..(*sz / PAGE) {
                if cur[pg * PAGE..(pg + 1) * PAGE] != snap[pg * PAGE..(pg + 1) * PAGE] {
                    touched.insert((ri, pg));
                }
            }
            // every byte outside the writable descriptors must be unchanged
            let mut w: Vec<(usize, usize)> =
                self.shape.segs.iter().filter(|s| s.writable && s.region == ri && s.len > 0).map(|s| (s.off, s.off + s.len)).collect();
            w.sort();
            let mut o = 0usize;
            let mut gaps: Vec<(usize, usize)> = Vec::new();
            for (a, b) in &w {
                if *a > o {
                    gaps.push((o, *a));
                }
                o = o.max(*b);
            }
            if o < *sz {
                gaps.push((o, *sz));
            }
            for (a, b) in gaps {
                if cur[a..b] != snap[a..b] && stray.is_none() {
                    let k = (a..b).find(|k| cur[*k] != snap[*k]).unwrap();
                    stray = Some(format!(
                        "guest memory outside the writable descriptors modified: region {} offset {:#x} ({:#x} -> {:#x})",
                        ri, k, snap[k], cur[k]
                    ));
                }
            }
        }
        for s in self.shape.segs.iter().filter(|s| s.writable) {
            let p = self.host(s.region, s.off);
            let cur = unsafe { std::slice::from_raw_parts(p, s.len) };
            let snap = &self.snap[s.region][s.off..s.off + s.len];
            wbytes.extend_from_slice(cur);
            if cur == snap {
                wmod.resize(wmod.len() + s.len, false);
            } else {
                wmod.extend(cur.iter().zip(snap.iter()).map(|(a, b)| a != b));
            }
        }
        VDiff { wbytes, wmod, stray, touched_pages: touched.into_iter().collect() }
    }
}

/// One request over the virtio-fs transport.
pub fn run_virtio<F: FileSystem + Sync>(srv: &Server<F>, shape: &VShape, req: &[u8], vu: Option<&mut dyn FsCacheReqHandler>) -> Outcome {
    run_virtio_with(shape, req, move |reader, writer| srv.handle_message(reader, writer, vu, None).map_err(|e| format!("{:?}", e)))
}

/// Bitmap slice type of the guest memory the harness uses.
pub type VBS<'a> = vm_memory::bitmap::BS<'a, AtomicBitmap>;

/// One request over the virtio-fs transport, the handler call supplied by the caller.
pub fn run_virtio_with(shape: &VShape, req: &[u8], call: impl for<'a> FnOnce(Reader<'a, VBS<'a>>, Writer<'a, VBS<'a>>) -> Result<usize, String>) -> Outcome {
    let mut vm = VMem::new(shape);
    vm.place_request(req);
    let descs = vm.chain_descs();
    let vq = MockSplitQueue::new(&vm.mem, 256);
    let chain = match vq.build_desc_chain(&descs) {
        Ok(c) => c,
        Err(e) => {
            return Outcome {
                ret: Err(format!("harness: chain build failed: {:?}", e)),
                panic: None,
                records: vec![],
                stray: None,
                dirty: vec![],
                touched_pages: vec![],
                modified_prefix: 0,
                transport: "virtio-harness-error",
            }
        }
    };
    vm.reset_bitmaps();
    let mem_ref = &vm.mem;
    let ret = guarded(move || {
        let reader = Reader::from_descriptor_chain(mem_ref, chain.clone()).map_err(|e| format!("reader: {:?}", e))?;
        let writer = VirtioFsWriter::new(mem_ref, chain).map_err(|e| format!("writer: {:?}", e))?;
        call(reader, Writer::VirtioFs(writer))
    });
    let dirty = vm.dirty_pages();
    let d = vm.diff();
    let mut stray = d.stray.clone();
    if vm.queue_region_dirty() && stray.is_none() {
        stray = Some("queue metadata region marked dirty".to_string());
    }
    // reply reconstruction: if any writable byte changed, the reply is wbytes[0..len]
    let last_mod = d.wmod.iter().rposition(|m| *m);
    let mut records = vec![];
    let mut modified_prefix = 0;
    if let Some(lm) = last_mod {
        modified_prefix = lm + 1;
        let len = if d.wbytes.len() >= 4 { u32::from_le_bytes([d.wbytes[0], d.wbytes[1], d.wbytes[2], d.wbytes[3]]) as usize } else { 0 };
        let take = len.min(d.wbytes.len());
        records.push(d.wbytes[..take].to_vec());
        // Bytes past the reply length: legitimate only as left-over zero-copy payload of READ /
        // READDIR / READDIRPLUS whose filesystem call failed after producing data (the payload is
        // written in place behind the header slot before the outcome is known). For every other
        // opcode anything behind the reply is a second message.
        let op = if req.len() >= 8 { u32::from_le_bytes([req[4], req[5], req[6], req[7]]) } else { 0 };
        let zero_copy_payload = op == 15 || op == 28 || op == 44;
        if lm >= len && stray.is_none() && !(zero_copy_payload && len >= 16) {
            stray = Some(format!("writable byte at reply-area offset {} modified beyond the reply length {}", lm, len));
        }
        if len > d.wbytes.len() && stray.is_none() {
            stray = Some(format!("reply length field {} exceeds writable capacity {}", len, d.wbytes.len()));
        }
    }
    let (ret, panic) = match ret {
        Ok(r) => (r, None),
        Err(p) => (Err("panic".to_string()), Some(p)),
    };
    Outcome { ret, panic, records, stray, dirty, touched_pages: d.touched_pages, modified_prefix, transport: "virtio" }
}

//! AsyncFileSystem for ScriptFs (C20): the same seeded script, the same call log under the same
//! method names as the synchronous implementation, so the two request paths can be compared call by
//! call. Data of READ goes through the writer's synchronous or asynchronous entry points following
//! the same scripted choices the synchronous implementation makes; data of WRITE is taken from the
//! reader through read() or, for every third size, through async_read_to().
//!
//! The crate's asynchronous reader / writer traits are `?Send` while AsyncFileSystem's futures must
//! be `Send`; the crate itself relies on a single-threaded executor (see its `unsafe impl Send for
//! AsyncZcReader`), and so does this harness: AssertSend wraps the non-Send parts.
use std::ffi::CStr;
use std::future::Future;
use std::io;
use std::pin::Pin;
use std::sync::Arc;
use std::task::{Context as TaskContext, Poll};
use std::time::Duration;

use async_trait::async_trait;
use fuse_backend_rs::abi::fuse_abi::{stat64, CreateIn, OpenOptions, SetattrValid};
use fuse_backend_rs::api::filesystem::{AsyncFileSystem, AsyncZeroCopyReader, AsyncZeroCopyWriter, Context, Entry, FileSystem};
use fuse_backend_rs::file_traits::AsyncFileReadWriteVolatile;

use super::{memfd_with, ErrV, Res, ScriptFs, V};

struct AssertSend<F>(F);
// Safety: only ever polled on the thread that created it (current-thread runtime of the harness).
unsafe impl<F> Send for AssertSend<F> {}
impl<F: Future> Future for AssertSend<F> {
    type Output = F::Output;
    fn poll(self: Pin<&mut Self>, cx: &mut TaskContext<'_>) -> Poll<F::Output> {
        unsafe { self.map_unchecked_mut(|s| &mut s.0) }.poll(cx)
    }
}

#[async_trait]
impl AsyncFileSystem for ScriptFs {
    async fn async_lookup(&self, ctx: &Context, parent: u64, name: &CStr) -> io::Result<Entry> {
        self.lookup(ctx, parent, name)
    }

    async fn async_getattr(&self, ctx: &Context, inode: u64, handle: Option<u64>) -> io::Result<(stat64, Duration)> {
        self.getattr(ctx, inode, handle)
    }

    async fn async_setattr(&self, ctx: &Context, inode: u64, attr: stat64, handle: Option<u64>, valid: SetattrValid) -> io::Result<(stat64, Duration)> {
        self.setattr(ctx, inode, attr, handle, valid)
    }

    async fn async_open(&self, ctx: &Context, inode: u64, flags: u32, fuse_flags: u32) -> io::Result<(Option<u64>, OpenOptions)> {
        let (h, o, _) = self.open(ctx, inode, flags, fuse_flags)?;
        Ok((h, o))
    }

    async fn async_create(&self, ctx: &Context, parent: u64, name: &CStr, args: CreateIn) -> io::Result<(Entry, Option<u64>, OpenOptions)> {
        let (e, h, o, _) = self.create(ctx, parent, name, args)?;
        Ok((e, h, o))
    }

    async fn async_read(
        &self,
        ctx: &Context,
        inode: u64,
        handle: u64,
        w: &mut (dyn AsyncZeroCopyWriter + Send),
        size: u32,
        offset: u64,
        lock_owner: Option<u64>,
        flags: u32,
    ) -> io::Result<usize> {
        let mut a = vec![
            ("inode", V::U(inode)),
            ("handle", V::U(handle)),
            ("size", V::U(size as u64)),
            ("offset", V::U(offset)),
            ("lock_owner", V::OptU(lock_owner)),
            ("flags", V::U(flags as u64)),
        ];
        Self::ctx_args(ctx, &mut a);
        let avail = w.available_bytes();
        // the scripted decisions, exactly as in FileSystem::read
        let mut r = self.st.lock().unwrap().rng.clone();
        if let Some((e, ev)) = self.maybe_err(&mut r) {
            let mut st = self.st.lock().unwrap();
            self.record(&mut st, "read", a, Res::Err(ev));
            st.rng = r;
            return Err(e);
        }
        let limit = (size as usize).min(avail);
        let n = match r.below(8) {
            0 => 0,
            1 | 2 => limit,
            _ => r.below(limit as u64 + 1) as usize,
        };
        let data = r.bytes(n);
        let via_file = !cfg!(miri) && r.chance(1, 3) && n > 0;
        let chunks = if n == 0 { 1 } else { r.range(1, 3) as usize };
        let mut pushed = 0usize;
        let mut fail: Option<io::Error> = None;
        if via_file {
            let per = n.div_ceil(chunks);
            let res: Result<usize, io::Error> = AssertSend(async {
                let f: Arc<dyn AsyncFileReadWriteVolatile> = Arc::new(fuse_backend_rs::async_file::File::from_std_file(memfd_with(&data)));
                let mut pushed = 0usize;
                while pushed < n {
                    let want = per.min(n - pushed);
                    match w.async_write_from(f.clone(), want, pushed as u64).await {
                        Ok(0) => break,
                        Ok(k) => pushed += k,
                        Err(e) => return Err(e),
                    }
                }
                Ok(pushed)
            })
            .await;
            match res {
                Ok(p) => pushed = p,
                Err(e) => fail = Some(e),
            }
        } else {
            let per = n.div_ceil(chunks.max(1)).max(1);
            while pushed < n {
                let want = per.min(n - pushed);
                match w.write(&data[pushed..pushed + want]) {
                    Ok(0) => break,
                    Ok(k) => pushed += k,
                    Err(e) => {
                        fail = Some(e);
                        break;
                    }
                }
            }
        }
        let mut st = self.st.lock().unwrap();
        let out = if let Some(e) = fail {
            let code = e.raw_os_error().unwrap_or(libc::EIO);
            self.record(&mut st, "read", a, Res::Err(ErrV::Raw(code)));
            Err(io::Error::from_raw_os_error(code))
        } else {
            self.record(&mut st, "read", a, Res::Read { data: data[..pushed].to_vec(), count: pushed, via_file, chunks });
            Ok(pushed)
        };
        st.rng = r;
        out
    }

    async fn async_write(
        &self,
        ctx: &Context,
        inode: u64,
        handle: u64,
        rd: &mut (dyn AsyncZeroCopyReader + Send),
        size: u32,
        offset: u64,
        lock_owner: Option<u64>,
        delayed_write: bool,
        flags: u32,
        fuse_flags: u32,
    ) -> io::Result<usize> {
        let mut data = Vec::new();
        if size % 3 == 0 && size > 0 && !cfg!(miri) {
            // through the asynchronous zero-copy entry point into a memfd, then read back
            use std::os::unix::fs::FileExt;
            let m = memfd_with(&[]);
            let back = m.try_clone()?;
            AssertSend(async {
                let f: Arc<dyn AsyncFileReadWriteVolatile> = Arc::new(fuse_backend_rs::async_file::File::from_std_file(m));
                let mut left = size as usize;
                let mut at = 0u64;
                while left > 0 {
                    match rd.async_read_to(f.clone(), left, at).await {
                        Ok(0) | Err(_) => break,
                        Ok(k) => {
                            left -= k;
                            at += k as u64;
                        }
                    }
                }
            })
            .await;
            let len = back.metadata()?.len() as usize;
            data.resize(len, 0);
            let mut got = 0;
            while got < len {
                match back.read_at(&mut data[got..], got as u64) {
                    Ok(0) | Err(_) => break,
                    Ok(k) => got += k,
                }
            }
            data.truncate(got);
        } else {
            let mut left = size as usize;
            let mut chunk = vec![0u8; 64 * 1024];
            while left > 0 {
                let want = left.min(chunk.len());
                match rd.read(&mut chunk[..want]) {
                    Ok(0) => break,
                    Ok(n) => {
                        data.extend_from_slice(&chunk[..n]);
                        left -= n;
                    }
                    Err(_) => break,
                }
            }
        }
        let mut a = vec![
            ("inode", V::U(inode)),
            ("handle", V::U(handle)),
            ("size", V::U(size as u64)),
            ("offset", V::U(offset)),
            ("lock_owner", V::OptU(lock_owner)),
            ("delayed_write", V::B(delayed_write)),
            ("flags", V::U(flags as u64)),
            ("fuse_flags", V::U(fuse_flags as u64)),
            ("data", V::Bytes(data)),
        ];
        Self::ctx_args(ctx, &mut a);
        self.simple("write", a, |r| {
            let n = if r.chance(1, 2) { size as usize } else { r.below(size as u64 + 1) as usize };
            (n, Res::Written(n))
        })
    }

    async fn async_fsync(&self, ctx: &Context, inode: u64, datasync: bool, handle: u64) -> io::Result<()> {
        self.fsync(ctx, inode, datasync, handle)
    }

    async fn async_fallocate(&self, ctx: &Context, inode: u64, handle: u64, mode: u32, offset: u64, length: u64) -> io::Result<()> {
        self.fallocate(ctx, inode, handle, mode, offset, length)
    }

    async fn async_fsyncdir(&self, ctx: &Context, inode: u64, datasync: bool, handle: u64) -> io::Result<()> {
        self.fsyncdir(ctx, inode, datasync, handle)
    }
}

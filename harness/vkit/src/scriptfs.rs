//! ScriptFs: a scripted, logging `FileSystem`. Every call is appended to a log with deep copies of
//! all arguments; every result is drawn from the case's PRNG stream and recorded next to the call,
//! so oracles can compare (a) what the server decoded with what the client encoded and (b) what the
//! server put on the wire with what the filesystem returned.
use std::ffi::CStr;
use std::io;
use std::sync::Mutex;
use std::time::Duration;

use fuse_backend_rs::abi::fuse_abi::{stat64, statvfs64, CreateIn, FsOptions, OpenOptions, SetattrValid};
use fuse_backend_rs::abi::virtio_fs::RemovemappingOne;
use fuse_backend_rs::api::filesystem::{
    Context, DirEntry, Entry, FileLock, FileSystem, GetxattrReply, IoctlData, ListxattrReply, ZeroCopyReader, ZeroCopyWriter,
};
use fuse_backend_rs::transport::FsCacheReqHandler;

use crate::json::J;
use crate::prng::Rng;

#[derive(Clone, Debug, PartialEq)]
pub enum V {
    U(u64),
    B(bool),
    OptU(Option<u64>),
    Bytes(Vec<u8>),
    Pairs(Vec<(u64, u64)>),
    Triples(Vec<(u64, u64, u64)>),
}

impl V {
    pub fn j(&self) -> J {
        match self {
            V::U(u) => J::U(*u),
            V::B(b) => J::Bool(*b),
            V::OptU(None) => J::Null,
            V::OptU(Some(u)) => J::U(*u),
            V::Bytes(b) => J::bytes(b),
            V::Pairs(p) => J::A(p.iter().take(8).map(|(a, b)| J::A(vec![J::U(*a), J::U(*b)])).collect()),
            V::Triples(p) => J::A(p.iter().take(8).map(|(a, b, c)| J::A(vec![J::U(*a), J::U(*b), J::U(*c)])).collect()),
        }
    }
}

#[derive(Clone, Debug, PartialEq, Default)]
pub struct StatVals {
    pub ino: u64,
    pub size: i64,
    pub blocks: i64,
    pub atime: i64,
    pub mtime: i64,
    pub ctime: i64,
    pub atime_nsec: i64,
    pub mtime_nsec: i64,
    pub ctime_nsec: i64,
    pub mode: u32,
    pub nlink: u64,
    pub uid: u32,
    pub gid: u32,
    pub rdev: u64,
    pub blksize: i64,
}

impl StatVals {
    pub fn random(r: &mut Rng) -> StatVals {
        StatVals {
            ino: r.edge(64),
            size: r.edge(64) as i64,
            blocks: r.edge(64) as i64,
            atime: r.edge(64) as i64,
            mtime: r.edge(64) as i64,
            ctime: r.edge(64) as i64,
            atime_nsec: r.edge(32) as i64,
            mtime_nsec: r.edge(32) as i64,
            ctime_nsec: r.edge(32) as i64,
            mode: r.edge(32) as u32,
            nlink: r.edge(32),
            uid: r.edge(32) as u32,
            gid: r.edge(32) as u32,
            rdev: r.edge(32),
            blksize: r.edge(32) as i64,
        }
    }
    pub fn to_stat(&self) -> stat64 {
        let mut st: stat64 = unsafe { std::mem::zeroed() };
        st.st_ino = self.ino;
        st.st_size = self.size;
        st.st_blocks = self.blocks;
        st.st_atime = self.atime;
        st.st_mtime = self.mtime;
        st.st_ctime = self.ctime;
        st.st_atime_nsec = self.atime_nsec;
        st.st_mtime_nsec = self.mtime_nsec;
        st.st_ctime_nsec = self.ctime_nsec;
        st.st_mode = self.mode;
        st.st_nlink = self.nlink;
        st.st_uid = self.uid;
        st.st_gid = self.gid;
        st.st_rdev = self.rdev;
        st.st_blksize = self.blksize;
        st
    }
    pub fn from_stat(st: &stat64) -> StatVals {
        StatVals {
            ino: st.st_ino,
            size: st.st_size,
            blocks: st.st_blocks,
            atime: st.st_atime,
            mtime: st.st_mtime,
            ctime: st.st_ctime,
            atime_nsec: st.st_atime_nsec,
            mtime_nsec: st.st_mtime_nsec,
            ctime_nsec: st.st_ctime_nsec,
            mode: st.st_mode,
            nlink: st.st_nlink,
            uid: st.st_uid,
            gid: st.st_gid,
            rdev: st.st_rdev,
            blksize: st.st_blksize,
        }
    }
    pub fn j(&self) -> J {
        J::obj(vec![
            ("ino", J::U(self.ino)),
            ("size", J::I(self.size)),
            ("mode", J::U(self.mode as u64)),
            ("nlink", J::U(self.nlink)),
            ("uid", J::U(self.uid as u64)),
            ("gid", J::U(self.gid as u64)),
            ("rdev", J::U(self.rdev)),
        ])
    }
}

#[derive(Clone, Debug, PartialEq, Default)]
pub struct EntryVals {
    pub inode: u64,
    pub generation: u64,
    pub attr: StatVals,
    pub attr_flags: u32,
    pub attr_timeout: (u64, u32),
    pub entry_timeout: (u64, u32),
}

impl EntryVals {
    pub fn random(r: &mut Rng) -> EntryVals {
        EntryVals {
            inode: if r.chance(1, 12) { 0 } else { r.edge(64) },
            generation: r.edge(64),
            attr: StatVals::random(r),
            attr_flags: r.edge(32) as u32,
            attr_timeout: (r.edge(64), r.below(1_000_000_000) as u32),
            entry_timeout: (r.edge(64), r.below(1_000_000_000) as u32),
        }
    }
    pub fn to_entry(&self) -> Entry {
        Entry {
            inode: self.inode,
            generation: self.generation,
            attr: self.attr.to_stat(),
            attr_flags: self.attr_flags,
            attr_timeout: Duration::new(self.attr_timeout.0, self.attr_timeout.1),
            entry_timeout: Duration::new(self.entry_timeout.0, self.entry_timeout.1),
        }
    }
    pub fn j(&self) -> J {
        J::obj(vec![
            ("inode", J::U(self.inode)),
            ("generation", J::U(self.generation)),
            ("attr", self.attr.j()),
            ("attr_flags", J::U(self.attr_flags as u64)),
            ("attr_timeout", J::A(vec![J::U(self.attr_timeout.0), J::U(self.attr_timeout.1 as u64)])),
            ("entry_timeout", J::A(vec![J::U(self.entry_timeout.0), J::U(self.entry_timeout.1 as u64)])),
        ])
    }
}

#[derive(Clone, Debug, PartialEq)]
pub struct DirVals {
    pub ino: u64,
    pub offset: u64,
    pub type_: u32,
    pub name: Vec<u8>,
    pub entry: Option<EntryVals>,
    /// what add_entry returned for this entry: Ok(n) or Err(raw errno / -1)
    pub ret: Result<usize, i32>,
}

#[derive(Clone, Debug, PartialEq)]
pub enum ErrV {
    Raw(i32),
    Kind(String, i32), // (kind debug name, crate's documented errno mapping is checked by the oracle, this is only the index)
}

#[derive(Clone, Debug, PartialEq)]
pub enum Res {
    None,
    Err(ErrV),
    Unit,
    Entry(EntryVals),
    Attr(StatVals, (u64, u32)),
    Open { fh: Option<u64>, opts: u32, passthrough: Option<u32> },
    Create { entry: EntryVals, fh: Option<u64>, opts: u32, passthrough: Option<u32> },
    Bytes(Vec<u8>),
    Count(u32),
    /// read: payload bytes actually pushed into the writer, and the count returned
    Read { data: Vec<u8>, count: usize, via_file: bool, chunks: usize },
    Written(usize),
    Statfs { blocks: u64, bfree: u64, bavail: u64, files: u64, ffree: u64, bsize: u64, namemax: u64, frsize: u64 },
    Lock { start: u64, end: u64, typ: u32, pid: u32 },
    U64(u64),
    U32(u32),
    Ioctl { result: i32, data: Option<Vec<u8>> },
    Dir { entries: Vec<DirVals>, final_err: Option<ErrV> },
    Init(u64),
}

impl Res {
    pub fn j(&self) -> J {
        match self {
            Res::Err(ErrV::Raw(e)) => J::obj(vec![("err_raw", J::I(*e as i64))]),
            Res::Err(ErrV::Kind(k, _)) => J::obj(vec![("err_kind", J::s(k))]),
            Res::Entry(e) => J::obj(vec![("entry", e.j())]),
            Res::Attr(a, t) => J::obj(vec![("attr", a.j()), ("timeout", J::A(vec![J::U(t.0), J::U(t.1 as u64)]))]),
            Res::Bytes(b) => J::obj(vec![("bytes", J::bytes(b))]),
            Res::Read { data, count, via_file, chunks } => {
                J::obj(vec![("read_len", J::U(data.len() as u64)), ("count", J::U(*count as u64)), ("via_file", J::Bool(*via_file)), ("chunks", J::U(*chunks as u64))])
            }
            Res::Dir { entries, final_err } => J::obj(vec![
                ("dir_entries_offered", J::U(entries.len() as u64)),
                ("delivered", J::U(entries.iter().filter(|e| matches!(e.ret, Ok(n) if n > 0)).count() as u64)),
                ("final_err", J::s(format!("{:?}", final_err))),
            ]),
            other => J::s(format!("{:?}", other)),
        }
    }
    pub fn class(&self) -> &'static str {
        match self {
            Res::None => "none",
            Res::Err(ErrV::Raw(_)) => "err_raw",
            Res::Err(ErrV::Kind(..)) => "err_kind",
            Res::Unit => "unit",
            Res::Entry(_) => "entry",
            Res::Attr(..) => "attr",
            Res::Open { .. } => "open",
            Res::Create { .. } => "create",
            Res::Bytes(_) => "bytes",
            Res::Count(_) => "count",
            Res::Read { .. } => "read",
            Res::Written(_) => "written",
            Res::Statfs { .. } => "statfs",
            Res::Lock { .. } => "lock",
            Res::U64(_) => "u64",
            Res::U32(_) => "u32",
            Res::Ioctl { .. } => "ioctl",
            Res::Dir { .. } => "dir",
            Res::Init(_) => "init",
        }
    }
}

#[derive(Clone, Debug, PartialEq)]
pub struct Call {
    pub method: &'static str,
    pub args: Vec<(&'static str, V)>,
    pub res: Res,
}

impl Call {
    pub fn arg(&self, name: &str) -> Option<&V> {
        self.args.iter().find(|(n, _)| *n == name).map(|(_, v)| v)
    }
    pub fn j(&self) -> J {
        J::obj(vec![
            ("method", J::s(self.method)),
            ("args", J::O(self.args.iter().map(|(n, v)| (n.to_string(), v.j())).collect())),
            ("result", self.res.j()),
        ])
    }
}

pub const ERR_KINDS: &[io::ErrorKind] = &[
    io::ErrorKind::NotFound,
    io::ErrorKind::PermissionDenied,
    io::ErrorKind::ConnectionRefused,
    io::ErrorKind::ConnectionReset,
    io::ErrorKind::ConnectionAborted,
    io::ErrorKind::NotConnected,
    io::ErrorKind::AddrInUse,
    io::ErrorKind::AddrNotAvailable,
    io::ErrorKind::BrokenPipe,
    io::ErrorKind::AlreadyExists,
    io::ErrorKind::WouldBlock,
    io::ErrorKind::InvalidInput,
    io::ErrorKind::InvalidData,
    io::ErrorKind::TimedOut,
    io::ErrorKind::WriteZero,
    io::ErrorKind::Interrupted,
    io::ErrorKind::UnexpectedEof,
    io::ErrorKind::Unsupported,
    io::ErrorKind::OutOfMemory,
    io::ErrorKind::Other,
];

#[derive(Clone, Debug)]
pub struct Script {
    /// probability (per mille) that a result-bearing call fails
    pub err_permille: u64,
    /// of the failures, per mille that are non-OS error kinds
    pub kind_permille: u64,
    /// FsOptions bits returned by init()
    pub want: u64,
    /// init() fails with this raw errno
    pub init_err: Option<i32>,
    /// data returned by ioctl on success (must outlive the call)
    pub ioctl_out: Option<Vec<u8>>,
    /// offer directory entries whose names may be empty / huge (hostile fs) — off by default
    pub max_dir_entries: usize,
    /// bound on payload produced by read()
    pub honest_read: bool,
    /// open()/create() never return a passthrough backing id (the asynchronous trait cannot express one)
    pub no_passthrough: bool,
    /// readdir()/readdirplus() treat an error of the add_entry callback as "stop" and return Ok
    pub swallow_dir_error: bool,
}

impl Default for Script {
    fn default() -> Self {
        Script { err_permille: 200, kind_permille: 150, want: 0, init_err: None, ioctl_out: None, max_dir_entries: 12, honest_read: true, no_passthrough: false, swallow_dir_error: false }
    }
}

struct State {
    rng: Rng,
    log: Vec<Call>,
}

pub struct ScriptFs {
    st: Mutex<State>,
    pub script: Script,
}

fn name_bytes(c: &CStr) -> V {
    V::Bytes(c.to_bytes().to_vec())
}

impl ScriptFs {
    pub fn new(seed: u64, script: Script) -> ScriptFs {
        ScriptFs { st: Mutex::new(State { rng: Rng::new(seed), log: Vec::new() }), script }
    }
    pub fn take_log(&self) -> Vec<Call> {
        std::mem::take(&mut self.st.lock().unwrap().log)
    }
    pub fn log_len(&self) -> usize {
        self.st.lock().unwrap().log.len()
    }
    fn ctx_args(ctx: &Context, v: &mut Vec<(&'static str, V)>) {
        v.push(("uid", V::U(ctx.uid as u64)));
        v.push(("gid", V::U(ctx.gid as u64)));
        v.push(("pid", V::U(ctx.pid as u32 as u64)));
    }
    /// decide whether this call fails; returns the io::Error and its record
    fn maybe_err(&self, r: &mut Rng) -> Option<(io::Error, ErrV)> {
        if r.below(1000) < self.script.err_permille {
            if r.below(1000) < self.script.kind_permille {
                let i = r.below(ERR_KINDS.len() as u64) as usize;
                let k = ERR_KINDS[i];
                Some((io::Error::new(k, "scripted"), ErrV::Kind(format!("{:?}", k), i as i32)))
            } else {
                let e = r.range(1, 133) as i32;
                Some((io::Error::from_raw_os_error(e), ErrV::Raw(e)))
            }
        } else {
            None
        }
    }
    fn record(&self, st: &mut State, method: &'static str, args: Vec<(&'static str, V)>, res: Res) {
        st.log.push(Call { method, args, res });
    }
    fn simple<T>(&self, method: &'static str, args: Vec<(&'static str, V)>, ok: impl FnOnce(&mut Rng) -> (T, Res)) -> io::Result<T> {
        let mut st = self.st.lock().unwrap();
        let mut r = st.rng.clone();
        let out = if let Some((e, ev)) = self.maybe_err(&mut r) {
            self.record(&mut st, method, args, Res::Err(ev));
            Err(e)
        } else {
            let (v, res) = ok(&mut r);
            self.record(&mut st, method, args, res);
            Ok(v)
        };
        st.rng = r;
        out
    }
}

fn open_res(r: &mut Rng) -> (Option<u64>, u32, Option<u32>) {
    let fh = if r.chance(1, 6) { None } else { Some(r.edge(64)) };
    let opts = (r.next() as u32) & 0x1f;
    let pt = if r.chance(1, 3) { Some(r.edge(32) as u32) } else { None };
    (fh, opts, pt)
}

impl FileSystem for ScriptFs {
    type Inode = u64;
    type Handle = u64;

    fn init(&self, capable: FsOptions) -> io::Result<FsOptions> {
        let mut st = self.st.lock().unwrap();
        let args = vec![("capable", V::U(capable.bits()))];
        if let Some(e) = self.script.init_err {
            self.record(&mut st, "init", args, Res::Err(ErrV::Raw(e)));
            return Err(io::Error::from_raw_os_error(e));
        }
        self.record(&mut st, "init", args, Res::Init(self.script.want));
        Ok(FsOptions::from_bits_truncate(self.script.want))
    }

    fn destroy(&self) {
        let mut st = self.st.lock().unwrap();
        self.record(&mut st, "destroy", vec![], Res::None);
    }

    fn lookup(&self, ctx: &Context, parent: u64, name: &CStr) -> io::Result<Entry> {
        let mut a = vec![("inode", V::U(parent)), ("name", name_bytes(name))];
        Self::ctx_args(ctx, &mut a);
        self.simple("lookup", a, |r| {
            let e = EntryVals::random(r);
            (e.to_entry(), Res::Entry(e))
        })
    }

    fn forget(&self, ctx: &Context, inode: u64, count: u64) {
        let mut a = vec![("inode", V::U(inode)), ("count", V::U(count))];
        Self::ctx_args(ctx, &mut a);
        let mut st = self.st.lock().unwrap();
        self.record(&mut st, "forget", a, Res::None);
    }

    fn batch_forget(&self, ctx: &Context, requests: Vec<(u64, u64)>) {
        let mut a = vec![("requests", V::Pairs(requests))];
        Self::ctx_args(ctx, &mut a);
        let mut st = self.st.lock().unwrap();
        self.record(&mut st, "batch_forget", a, Res::None);
    }

    fn getattr(&self, ctx: &Context, inode: u64, handle: Option<u64>) -> io::Result<(stat64, Duration)> {
        let mut a = vec![("inode", V::U(inode)), ("handle", V::OptU(handle))];
        Self::ctx_args(ctx, &mut a);
        self.simple("getattr", a, |r| {
            let s = StatVals::random(r);
            let t = (r.edge(64), r.below(1_000_000_000) as u32);
            ((s.to_stat(), Duration::new(t.0, t.1)), Res::Attr(s, t))
        })
    }

    fn setattr(&self, ctx: &Context, inode: u64, attr: stat64, handle: Option<u64>, valid: SetattrValid) -> io::Result<(stat64, Duration)> {
        let sv = StatVals::from_stat(&attr);
        let mut a = vec![
            ("inode", V::U(inode)),
            ("handle", V::OptU(handle)),
            ("valid", V::U(valid.bits() as u64)),
            ("st_mode", V::U(sv.mode as u64)),
            ("st_uid", V::U(sv.uid as u64)),
            ("st_gid", V::U(sv.gid as u64)),
            ("st_size", V::U(sv.size as u64)),
            ("st_atime", V::U(sv.atime as u64)),
            ("st_mtime", V::U(sv.mtime as u64)),
            ("st_ctime", V::U(sv.ctime as u64)),
            ("st_atime_nsec", V::U(sv.atime_nsec as u64)),
            ("st_mtime_nsec", V::U(sv.mtime_nsec as u64)),
            ("st_ctime_nsec", V::U(sv.ctime_nsec as u64)),
        ];
        Self::ctx_args(ctx, &mut a);
        self.simple("setattr", a, |r| {
            let s = StatVals::random(r);
            let t = (r.edge(64), r.below(1_000_000_000) as u32);
            ((s.to_stat(), Duration::new(t.0, t.1)), Res::Attr(s, t))
        })
    }

    fn readlink(&self, ctx: &Context, inode: u64) -> io::Result<Vec<u8>> {
        let mut a = vec![("inode", V::U(inode))];
        Self::ctx_args(ctx, &mut a);
        self.simple("readlink", a, |r| {
            let n = match r.below(6) {
                0 => 0,
                1 if !cfg!(miri) => 4095,
                _ => r.below(300) as usize,
            };
            let b = r.bytes(n);
            (b.clone(), Res::Bytes(b))
        })
    }

    fn symlink(&self, ctx: &Context, linkname: &CStr, parent: u64, name: &CStr) -> io::Result<Entry> {
        let mut a = vec![("inode", V::U(parent)), ("name", name_bytes(name)), ("linkname", name_bytes(linkname))];
        Self::ctx_args(ctx, &mut a);
        self.simple("symlink", a, |r| {
            let e = EntryVals::random(r);
            (e.to_entry(), Res::Entry(e))
        })
    }

    fn mknod(&self, ctx: &Context, inode: u64, name: &CStr, mode: u32, rdev: u32, umask: u32) -> io::Result<Entry> {
        let mut a = vec![
            ("inode", V::U(inode)),
            ("name", name_bytes(name)),
            ("mode", V::U(mode as u64)),
            ("rdev", V::U(rdev as u64)),
            ("umask", V::U(umask as u64)),
        ];
        Self::ctx_args(ctx, &mut a);
        self.simple("mknod", a, |r| {
            let e = EntryVals::random(r);
            (e.to_entry(), Res::Entry(e))
        })
    }

    fn mkdir(&self, ctx: &Context, parent: u64, name: &CStr, mode: u32, umask: u32) -> io::Result<Entry> {
        let mut a = vec![("inode", V::U(parent)), ("name", name_bytes(name)), ("mode", V::U(mode as u64)), ("umask", V::U(umask as u64))];
        Self::ctx_args(ctx, &mut a);
        self.simple("mkdir", a, |r| {
            let e = EntryVals::random(r);
            (e.to_entry(), Res::Entry(e))
        })
    }

    fn unlink(&self, ctx: &Context, parent: u64, name: &CStr) -> io::Result<()> {
        let mut a = vec![("inode", V::U(parent)), ("name", name_bytes(name))];
        Self::ctx_args(ctx, &mut a);
        self.simple("unlink", a, |_| ((), Res::Unit))
    }

    fn rmdir(&self, ctx: &Context, parent: u64, name: &CStr) -> io::Result<()> {
        let mut a = vec![("inode", V::U(parent)), ("name", name_bytes(name))];
        Self::ctx_args(ctx, &mut a);
        self.simple("rmdir", a, |_| ((), Res::Unit))
    }

    fn rename(&self, ctx: &Context, olddir: u64, oldname: &CStr, newdir: u64, newname: &CStr, flags: u32) -> io::Result<()> {
        let mut a = vec![
            ("inode", V::U(olddir)),
            ("oldname", name_bytes(oldname)),
            ("newdir", V::U(newdir)),
            ("newname", name_bytes(newname)),
            ("flags", V::U(flags as u64)),
        ];
        Self::ctx_args(ctx, &mut a);
        self.simple("rename", a, |_| ((), Res::Unit))
    }

    fn link(&self, ctx: &Context, inode: u64, newparent: u64, newname: &CStr) -> io::Result<Entry> {
        let mut a = vec![("inode", V::U(inode)), ("newparent", V::U(newparent)), ("name", name_bytes(newname))];
        Self::ctx_args(ctx, &mut a);
        self.simple("link", a, |r| {
            let e = EntryVals::random(r);
            (e.to_entry(), Res::Entry(e))
        })
    }

    fn open(&self, ctx: &Context, inode: u64, flags: u32, fuse_flags: u32) -> io::Result<(Option<u64>, OpenOptions, Option<u32>)> {
        let mut a = vec![("inode", V::U(inode)), ("flags", V::U(flags as u64)), ("fuse_flags", V::U(fuse_flags as u64))];
        Self::ctx_args(ctx, &mut a);
        self.simple("open", a, |r| {
            let (fh, opts, pt) = open_res(r);
            let pt = if self.script.no_passthrough { None } else { pt };
            ((fh, OpenOptions::from_bits_truncate(opts), pt), Res::Open { fh, opts, passthrough: pt })
        })
    }

    fn create(&self, ctx: &Context, parent: u64, name: &CStr, args: CreateIn) -> io::Result<(Entry, Option<u64>, OpenOptions, Option<u32>)> {
        let mut a = vec![
            ("inode", V::U(parent)),
            ("name", name_bytes(name)),
            ("flags", V::U(args.flags as u64)),
            ("mode", V::U(args.mode as u64)),
            ("umask", V::U(args.umask as u64)),
            ("fuse_flags", V::U(args.fuse_flags as u64)),
        ];
        Self::ctx_args(ctx, &mut a);
        self.simple("create", a, |r| {
            let e = EntryVals::random(r);
            let (fh, opts, pt) = open_res(r);
            let pt = if self.script.no_passthrough { None } else { pt };
            ((e.to_entry(), fh, OpenOptions::from_bits_truncate(opts), pt), Res::Create { entry: e, fh, opts, passthrough: pt })
        })
    }

    fn read(
        &self,
        ctx: &Context,
        inode: u64,
        handle: u64,
        w: &mut dyn ZeroCopyWriter,
        size: u32,
        offset: u64,
        lock_owner: Option<u64>,
        flags: u32,
    ) -> io::Result<usize> {
        let mut a = vec![
            ("inode", V::U(inode)),
            ("handle", V::U(handle)),
            ("size", V::U(size as u64)),
            ("offset", V::U(offset)),
            ("lock_owner", V::OptU(lock_owner)),
            ("flags", V::U(flags as u64)),
        ];
        Self::ctx_args(ctx, &mut a);
        let avail = w.available_bytes();
        let mut st = self.st.lock().unwrap();
        let mut r = st.rng.clone();
        let out = if let Some((e, ev)) = self.maybe_err(&mut r) {
            self.record(&mut st, "read", a, Res::Err(ev));
            Err(e)
        } else {
            let limit = (size as usize).min(avail);
            let n = match r.below(8) {
                0 => 0,
                1 | 2 => limit,
                _ => r.below(limit as u64 + 1) as usize,
            };
            let data = r.bytes(n);
            let via_file = !cfg!(miri) && r.chance(1, 3) && n > 0;
            let chunks = if n == 0 { 1 } else { r.range(1, 3) as usize };
            let mut pushed = 0usize;
            let mut fail: Option<io::Error> = None;
            if via_file {
                #[cfg(not(miri))]
                {
                    let mut f = memfd_with(&data);
                    let per = n.div_ceil(chunks);
                    while pushed < n {
                        let want = per.min(n - pushed);
                        match w.write_from(&mut f, want, pushed as u64) {
                            Ok(0) => break,
                            Ok(k) => pushed += k,
                            Err(e) => {
                                fail = Some(e);
                                break;
                            }
                        }
                    }
                }
            } else {
                let per = n.div_ceil(chunks.max(1)).max(1);
                while pushed < n {
                    let want = per.min(n - pushed);
                    match w.write(&data[pushed..pushed + want]) {
                        Ok(0) => break,
                        Ok(k) => pushed += k,
                        Err(e) => {
                            fail = Some(e);
                            break;
                        }
                    }
                }
            }
            if let Some(e) = fail {
                // a writer refusing data that fits its own available_bytes(): surface as the fs error
                let code = e.raw_os_error().unwrap_or(libc::EIO);
                self.record(&mut st, "read", a, Res::Err(ErrV::Raw(code)));
                Err(io::Error::from_raw_os_error(code))
            } else {
                self.record(&mut st, "read", a, Res::Read { data: data[..pushed].to_vec(), count: pushed, via_file, chunks });
                Ok(pushed)
            }
        };
        st.rng = r;
        out
    }

    fn write(
        &self,
        ctx: &Context,
        inode: u64,
        handle: u64,
        rd: &mut dyn ZeroCopyReader,
        size: u32,
        offset: u64,
        lock_owner: Option<u64>,
        delayed_write: bool,
        flags: u32,
        fuse_flags: u32,
    ) -> io::Result<usize> {
        // read exactly `size` bytes (or all that is there)
        let mut data = Vec::new();
        let mut left = size as usize;
        let mut chunk = vec![0u8; 64 * 1024];
        while left > 0 {
            let want = left.min(chunk.len());
            match rd.read(&mut chunk[..want]) {
                Ok(0) => break,
                Ok(n) => {
                    data.extend_from_slice(&chunk[..n]);
                    left -= n;
                }
                Err(_) => break,
            }
        }
        let mut a = vec![
            ("inode", V::U(inode)),
            ("handle", V::U(handle)),
            ("size", V::U(size as u64)),
            ("offset", V::U(offset)),
            ("lock_owner", V::OptU(lock_owner)),
            ("delayed_write", V::B(delayed_write)),
            ("flags", V::U(flags as u64)),
            ("fuse_flags", V::U(fuse_flags as u64)),
            ("data", V::Bytes(data)),
        ];
        Self::ctx_args(ctx, &mut a);
        self.simple("write", a, |r| {
            let n = if r.chance(1, 2) { size as usize } else { r.below(size as u64 + 1) as usize };
            (n, Res::Written(n))
        })
    }

    fn flush(&self, ctx: &Context, inode: u64, handle: u64, lock_owner: u64) -> io::Result<()> {
        let mut a = vec![("inode", V::U(inode)), ("handle", V::U(handle)), ("lock_owner", V::U(lock_owner))];
        Self::ctx_args(ctx, &mut a);
        self.simple("flush", a, |_| ((), Res::Unit))
    }

    fn fsync(&self, ctx: &Context, inode: u64, datasync: bool, handle: u64) -> io::Result<()> {
        let mut a = vec![("inode", V::U(inode)), ("datasync", V::B(datasync)), ("handle", V::U(handle))];
        Self::ctx_args(ctx, &mut a);
        self.simple("fsync", a, |_| ((), Res::Unit))
    }

    fn fallocate(&self, ctx: &Context, inode: u64, handle: u64, mode: u32, offset: u64, length: u64) -> io::Result<()> {
        let mut a = vec![("inode", V::U(inode)), ("handle", V::U(handle)), ("mode", V::U(mode as u64)), ("offset", V::U(offset)), ("length", V::U(length))];
        Self::ctx_args(ctx, &mut a);
        self.simple("fallocate", a, |_| ((), Res::Unit))
    }

    fn release(&self, ctx: &Context, inode: u64, flags: u32, handle: u64, flush: bool, flock_release: bool, lock_owner: Option<u64>) -> io::Result<()> {
        let mut a = vec![
            ("inode", V::U(inode)),
            ("flags", V::U(flags as u64)),
            ("handle", V::U(handle)),
            ("flush", V::B(flush)),
            ("flock_release", V::B(flock_release)),
            ("lock_owner", V::OptU(lock_owner)),
        ];
        Self::ctx_args(ctx, &mut a);
        self.simple("release", a, |_| ((), Res::Unit))
    }

    fn statfs(&self, ctx: &Context, inode: u64) -> io::Result<statvfs64> {
        let mut a = vec![("inode", V::U(inode))];
        Self::ctx_args(ctx, &mut a);
        self.simple("statfs", a, |r| {
            let mut s: statvfs64 = unsafe { std::mem::zeroed() };
            s.f_blocks = r.edge(64);
            s.f_bfree = r.edge(64);
            s.f_bavail = r.edge(64);
            s.f_files = r.edge(64);
            s.f_ffree = r.edge(64);
            s.f_bsize = r.edge(32);
            s.f_namemax = r.edge(32);
            s.f_frsize = r.edge(32);
            (
                s,
                Res::Statfs {
                    blocks: s.f_blocks,
                    bfree: s.f_bfree,
                    bavail: s.f_bavail,
                    files: s.f_files,
                    ffree: s.f_ffree,
                    bsize: s.f_bsize,
                    namemax: s.f_namemax,
                    frsize: s.f_frsize,
                },
            )
        })
    }

    fn setxattr(&self, ctx: &Context, inode: u64, name: &CStr, value: &[u8], flags: u32) -> io::Result<()> {
        let mut a = vec![("inode", V::U(inode)), ("name", name_bytes(name)), ("value", V::Bytes(value.to_vec())), ("flags", V::U(flags as u64))];
        Self::ctx_args(ctx, &mut a);
        self.simple("setxattr", a, |_| ((), Res::Unit))
    }

    fn getxattr(&self, ctx: &Context, inode: u64, name: &CStr, size: u32) -> io::Result<GetxattrReply> {
        let mut a = vec![("inode", V::U(inode)), ("name", name_bytes(name)), ("size", V::U(size as u64))];
        Self::ctx_args(ctx, &mut a);
        self.simple("getxattr", a, |r| {
            if r.chance(1, 3) {
                let c = r.edge(32) as u32;
                (GetxattrReply::Count(c), Res::Count(c))
            } else {
                let n = r.below(400) as usize;
                let b = r.bytes(n);
                (GetxattrReply::Value(b.clone()), Res::Bytes(b))
            }
        })
    }

    fn listxattr(&self, ctx: &Context, inode: u64, size: u32) -> io::Result<ListxattrReply> {
        let mut a = vec![("inode", V::U(inode)), ("size", V::U(size as u64))];
        Self::ctx_args(ctx, &mut a);
        self.simple("listxattr", a, |r| {
            if r.chance(1, 3) {
                let c = r.edge(32) as u32;
                (ListxattrReply::Count(c), Res::Count(c))
            } else {
                let n = r.below(400) as usize;
                let b = r.bytes(n);
                (ListxattrReply::Names(b.clone()), Res::Bytes(b))
            }
        })
    }

    fn removexattr(&self, ctx: &Context, inode: u64, name: &CStr) -> io::Result<()> {
        let mut a = vec![("inode", V::U(inode)), ("name", name_bytes(name))];
        Self::ctx_args(ctx, &mut a);
        self.simple("removexattr", a, |_| ((), Res::Unit))
    }

    fn opendir(&self, ctx: &Context, inode: u64, flags: u32) -> io::Result<(Option<u64>, OpenOptions)> {
        let mut a = vec![("inode", V::U(inode)), ("flags", V::U(flags as u64))];
        Self::ctx_args(ctx, &mut a);
        self.simple("opendir", a, |r| {
            let (fh, opts, _) = open_res(r);
            ((fh, OpenOptions::from_bits_truncate(opts)), Res::Open { fh, opts, passthrough: None })
        })
    }

    fn readdir(
        &self,
        ctx: &Context,
        inode: u64,
        handle: u64,
        size: u32,
        offset: u64,
        add_entry: &mut dyn FnMut(DirEntry) -> io::Result<usize>,
    ) -> io::Result<()> {
        let mut a = vec![("inode", V::U(inode)), ("handle", V::U(handle)), ("size", V::U(size as u64)), ("offset", V::U(offset))];
        Self::ctx_args(ctx, &mut a);
        self.dir_common("readdir", a, false, &mut |d, _e| add_entry(d))
    }

    fn readdirplus(
        &self,
        ctx: &Context,
        inode: u64,
        handle: u64,
        size: u32,
        offset: u64,
        add_entry: &mut dyn FnMut(DirEntry, Entry) -> io::Result<usize>,
    ) -> io::Result<()> {
        let mut a = vec![("inode", V::U(inode)), ("handle", V::U(handle)), ("size", V::U(size as u64)), ("offset", V::U(offset))];
        Self::ctx_args(ctx, &mut a);
        self.dir_common("readdirplus", a, true, &mut |d, e| add_entry(d, e.unwrap()))
    }

    fn fsyncdir(&self, ctx: &Context, inode: u64, datasync: bool, handle: u64) -> io::Result<()> {
        let mut a = vec![("inode", V::U(inode)), ("datasync", V::B(datasync)), ("handle", V::U(handle))];
        Self::ctx_args(ctx, &mut a);
        self.simple("fsyncdir", a, |_| ((), Res::Unit))
    }

    fn releasedir(&self, ctx: &Context, inode: u64, flags: u32, handle: u64) -> io::Result<()> {
        let mut a = vec![("inode", V::U(inode)), ("flags", V::U(flags as u64)), ("handle", V::U(handle))];
        Self::ctx_args(ctx, &mut a);
        self.simple("releasedir", a, |_| ((), Res::Unit))
    }

    fn setupmapping(
        &self,
        ctx: &Context,
        inode: u64,
        handle: u64,
        foffset: u64,
        len: u64,
        flags: u64,
        moffset: u64,
        _vu_req: &mut dyn FsCacheReqHandler,
    ) -> io::Result<()> {
        let mut a = vec![
            ("inode", V::U(inode)),
            ("handle", V::U(handle)),
            ("foffset", V::U(foffset)),
            ("len", V::U(len)),
            ("flags", V::U(flags)),
            ("moffset", V::U(moffset)),
        ];
        Self::ctx_args(ctx, &mut a);
        self.simple("setupmapping", a, |_| ((), Res::Unit))
    }

    fn removemapping(&self, ctx: &Context, inode: u64, requests: Vec<RemovemappingOne>, _vu_req: &mut dyn FsCacheReqHandler) -> io::Result<()> {
        let mut a = vec![("inode", V::U(inode)), ("requests", V::Pairs(requests.iter().map(|r| (r.moffset, r.len)).collect()))];
        Self::ctx_args(ctx, &mut a);
        self.simple("removemapping", a, |_| ((), Res::Unit))
    }

    fn access(&self, ctx: &Context, inode: u64, mask: u32) -> io::Result<()> {
        let mut a = vec![("inode", V::U(inode)), ("mask", V::U(mask as u64))];
        Self::ctx_args(ctx, &mut a);
        self.simple("access", a, |_| ((), Res::Unit))
    }

    fn lseek(&self, ctx: &Context, inode: u64, handle: u64, offset: u64, whence: u32) -> io::Result<u64> {
        let mut a = vec![("inode", V::U(inode)), ("handle", V::U(handle)), ("offset", V::U(offset)), ("whence", V::U(whence as u64))];
        Self::ctx_args(ctx, &mut a);
        self.simple("lseek", a, |r| {
            let v = r.edge(64);
            (v, Res::U64(v))
        })
    }

    fn getlk(&self, ctx: &Context, inode: u64, handle: u64, owner: u64, lock: FileLock, flags: u32) -> io::Result<FileLock> {
        let mut a = lock_args(inode, handle, owner, &lock, flags);
        Self::ctx_args(ctx, &mut a);
        self.simple("getlk", a, |r| {
            let l = FileLock { start: r.edge(64), end: r.edge(64), lock_type: r.edge(32) as u32, pid: r.edge(32) as u32 };
            (l, Res::Lock { start: l.start, end: l.end, typ: l.lock_type, pid: l.pid })
        })
    }

    fn setlk(&self, ctx: &Context, inode: u64, handle: u64, owner: u64, lock: FileLock, flags: u32) -> io::Result<()> {
        let mut a = lock_args(inode, handle, owner, &lock, flags);
        Self::ctx_args(ctx, &mut a);
        self.simple("setlk", a, |_| ((), Res::Unit))
    }

    fn setlkw(&self, ctx: &Context, inode: u64, handle: u64, owner: u64, lock: FileLock, flags: u32) -> io::Result<()> {
        let mut a = lock_args(inode, handle, owner, &lock, flags);
        Self::ctx_args(ctx, &mut a);
        self.simple("setlkw", a, |_| ((), Res::Unit))
    }

    fn ioctl(&self, ctx: &Context, inode: u64, handle: u64, flags: u32, cmd: u32, data: IoctlData, out_size: u32) -> io::Result<IoctlData<'_>> {
        let mut a = vec![
            ("inode", V::U(inode)),
            ("handle", V::U(handle)),
            ("flags", V::U(flags as u64)),
            ("cmd", V::U(cmd as u64)),
            ("in_data", V::Bytes(data.data.map(|d| d.to_vec()).unwrap_or_default())),
            ("in_data_present", V::B(data.data.is_some())),
            ("out_size", V::U(out_size as u64)),
        ];
        Self::ctx_args(ctx, &mut a);
        let out = self.script.ioctl_out.as_deref();
        self.simple("ioctl", a, |r| {
            let result = r.edge(32) as u32 as i32;
            (IoctlData { result, data: out }, Res::Ioctl { result, data: out.map(|d| d.to_vec()) })
        })
    }

    fn bmap(&self, ctx: &Context, inode: u64, block: u64, blocksize: u32) -> io::Result<u64> {
        let mut a = vec![("inode", V::U(inode)), ("block", V::U(block)), ("blocksize", V::U(blocksize as u64))];
        Self::ctx_args(ctx, &mut a);
        self.simple("bmap", a, |r| {
            let v = r.edge(64);
            (v, Res::U64(v))
        })
    }

    fn poll(&self, ctx: &Context, inode: u64, handle: u64, khandle: u64, flags: u32, events: u32) -> io::Result<u32> {
        let mut a = vec![
            ("inode", V::U(inode)),
            ("handle", V::U(handle)),
            ("khandle", V::U(khandle)),
            ("flags", V::U(flags as u64)),
            ("events", V::U(events as u64)),
        ];
        Self::ctx_args(ctx, &mut a);
        self.simple("poll", a, |r| {
            let v = r.edge(32) as u32;
            (v, Res::U32(v))
        })
    }

    fn notify_reply(&self) -> io::Result<()> {
        self.simple("notify_reply", vec![], |_| ((), Res::Unit))
    }
}

fn lock_args(inode: u64, handle: u64, owner: u64, lock: &FileLock, flags: u32) -> Vec<(&'static str, V)> {
    vec![
        ("inode", V::U(inode)),
        ("handle", V::U(handle)),
        ("owner", V::U(owner)),
        ("lk_start", V::U(lock.start)),
        ("lk_end", V::U(lock.end)),
        ("lk_type", V::U(lock.lock_type as u64)),
        ("lk_pid", V::U(lock.pid as u64)),
        ("flags", V::U(flags as u64)),
    ]
}

impl ScriptFs {
    fn dir_common(
        &self,
        method: &'static str,
        args: Vec<(&'static str, V)>,
        plus: bool,
        add: &mut dyn FnMut(DirEntry, Option<Entry>) -> io::Result<usize>,
    ) -> io::Result<()> {
        let mut st = self.st.lock().unwrap();
        let mut r = st.rng.clone();
        let out = if let Some((e, ev)) = self.maybe_err(&mut r) {
            self.record(&mut st, method, args, Res::Err(ev));
            Err(e)
        } else {
            let n = r.below(self.script.max_dir_entries as u64 + 1) as usize;
            let mut entries = Vec::new();
            let mut final_err = None;
            let mut ret = Ok(());
            // a filesystem may also fail on its own after some entries were accepted (an I/O error in the
            // middle of the stream): the call as a whole then failed and the reply must carry that errno
            let fail_after = if n > 0 && self.script.err_permille > 0 && r.chance(1, 8) { Some(r.below(n as u64) as usize) } else { None };
            for i in 0..n {
                if fail_after == Some(i) && i > 0 {
                    let code = *r.pick(&[libc::EIO, libc::ENOMEM, libc::EBADF, libc::ENOENT, libc::EINTR]);
                    final_err = Some(ErrV::Raw(code));
                    ret = Err(io::Error::from_raw_os_error(code));
                    break;
                }
                let nlen = match r.below(8) {
                    0 => 255,
                    1 => r.range(1, 8) as usize,
                    _ => r.range(1, 40) as usize,
                };
                let name = r.name_len(nlen);
                let ev = if plus { Some(EntryVals::random(&mut r)) } else { None };
                let d = DirVals { ino: r.edge(64), offset: r.edge(64) | 1, type_: r.edge(32) as u32, name, entry: ev, ret: Ok(0) };
                let de = DirEntry { ino: d.ino, offset: d.offset, type_: d.type_, name: &d.name };
                let res = add(de, d.entry.as_ref().map(|e| e.to_entry()));
                let mut d = d;
                match res {
                    Ok(0) => {
                        d.ret = Ok(0);
                        entries.push(d);
                        break;
                    }
                    Ok(k) => {
                        d.ret = Ok(k);
                        entries.push(d);
                    }
                    Err(e) => {
                        let code = e.raw_os_error().unwrap_or(-1);
                        d.ret = Err(code);
                        entries.push(d);
                        if !self.script.swallow_dir_error {
                            final_err = Some(ErrV::Raw(code));
                            ret = Err(e);
                        }
                        break;
                    }
                }
            }
            self.record(&mut st, method, args, Res::Dir { entries, final_err });
            ret
        };
        st.rng = r;
        out
    }
}

#[cfg(not(miri))]
pub fn memfd_with(data: &[u8]) -> std::fs::File {
    use std::io::Write;
    use std::os::unix::io::FromRawFd;
    let fd = unsafe { libc::memfd_create(b"vkit\0".as_ptr() as *const _, libc::MFD_CLOEXEC) };
    assert!(fd >= 0);
    let mut f = unsafe { std::fs::File::from_raw_fd(fd) };
    f.write_all(data).unwrap();
    f
}

/// A no-op DAX window handler for SETUPMAPPING / REMOVEMAPPING requests.
pub struct NopCache;
impl FsCacheReqHandler for NopCache {
    fn map(&mut self, _foffset: u64, _moffset: u64, _len: u64, _flags: u64, _fd: std::os::unix::io::RawFd) -> io::Result<()> {
        Ok(())
    }
    fn unmap(&mut self, _requests: Vec<RemovemappingOne>) -> io::Result<()> {
        Ok(())
    }
}

#[cfg(feature = "async")]
#[path = "scriptfs_async.rs"]
mod asyncimpl;

//! vkit: common machinery for the runtime monitors of /verif (see /verif/DESIGN.md §2).
#![allow(clippy::too_many_arguments)]
pub mod client;
pub mod gen;
pub mod json;
pub mod klayout;
pub mod prng;
pub mod run;
pub mod scriptfs;
pub mod xport;

//! Shard protocol between a harness binary and the python driver.
//!
//! argv: <prop> --seed S --shard K --nshards N --cases M [--only I] [--tier quick|thorough]
//!       [--progress FILE] [--k=v ...]
//! stdout lines:
//!   VIOLATION-CASE {json}   one per violation (sig, case index, details incl. how to regenerate)
//!   INCONCLUSIVE {json}
//!   KEYS h1,h2,...          hashes of distinct non-trivial coverage keys
//!   SUMMARY {json}          counters, evaluations, samples
use std::collections::{BTreeMap, HashMap, HashSet};
use std::io::Write;

use crate::json::J;
use crate::prng::hash_str;

#[derive(Clone, Debug)]
pub struct Args {
    pub prop: String,
    pub seed: u64,
    pub shard: u64,
    pub nshards: u64,
    pub cases: u64,
    pub only: Option<u64>,
    pub tier: String,
    pub progress: Option<String>,
    pub extra: HashMap<String, String>,
}

impl Args {
    pub fn parse() -> Args {
        let argv: Vec<String> = std::env::args().collect();
        let mut a = Args {
            prop: argv.get(1).cloned().unwrap_or_default(),
            seed: 1,
            shard: 0,
            nshards: 1,
            cases: 100,
            only: None,
            tier: "quick".into(),
            progress: None,
            extra: HashMap::new(),
        };
        let mut i = 2;
        while i < argv.len() {
            let k = argv[i].as_str();
            let v = argv.get(i + 1).cloned().unwrap_or_default();
            match k {
                "--seed" => a.seed = v.parse().unwrap(),
                "--shard" => a.shard = v.parse().unwrap(),
                "--nshards" => a.nshards = v.parse().unwrap(),
                "--cases" => a.cases = v.parse().unwrap(),
                "--only" => a.only = Some(v.parse().unwrap()),
                "--tier" => a.tier = v,
                "--progress" => a.progress = Some(v),
                other => {
                    if let Some(rest) = other.strip_prefix("--") {
                        if let Some((k, v)) = rest.split_once('=') {
                            a.extra.insert(k.to_string(), v.to_string());
                            i += 1;
                            continue;
                        }
                    }
                    panic!("unknown argument {}", other);
                }
            }
            i += 2;
        }
        a
    }
    pub fn get(&self, k: &str) -> Option<&str> {
        self.extra.get(k).map(|s| s.as_str())
    }
    pub fn get_u64(&self, k: &str, d: u64) -> u64 {
        self.get(k).map(|s| s.parse().unwrap()).unwrap_or(d)
    }
    /// Case indices this shard runs: i ≡ shard (mod nshards), i < cases; or just `only`.
    pub fn indices(&self) -> Box<dyn Iterator<Item = u64>> {
        if let Some(o) = self.only {
            Box::new(std::iter::once(o))
        } else {
            let (s, n, c) = (self.shard, self.nshards, self.cases);
            Box::new((0..c).filter(move |i| i % n == s))
        }
    }
}

pub struct Report {
    pub prop: String,
    pub violations: u64,
    pub max_violations: u64,
    pub evaluations: u64,
    pub trivial: u64,
    distinct: HashSet<u64>,
    counters: BTreeMap<String, u64>,
    samples: Vec<J>,
    progress: Option<std::fs::File>,
    seen_sigs: HashSet<String>,
    inconclusive: Vec<J>,
}

impl Report {
    pub fn new(args: &Args) -> Report {
        let progress = args.progress.as_ref().map(|p| std::fs::OpenOptions::new().create(true).write(true).truncate(true).open(p).unwrap());
        Report {
            prop: args.prop.clone(),
            violations: 0,
            max_violations: 8,
            evaluations: 0,
            trivial: 0,
            distinct: HashSet::new(),
            counters: BTreeMap::new(),
            samples: Vec::new(),
            progress,
            seen_sigs: HashSet::new(),
            inconclusive: Vec::new(),
        }
    }
    /// Mark the case in flight (crash attribution by the driver).
    pub fn begin(&mut self, idx: u64, note: &str) {
        if let Some(f) = self.progress.as_mut() {
            use std::io::Seek;
            let _ = f.seek(std::io::SeekFrom::Start(0));
            let _ = f.write_all(format!("{:<20} {:<200}\n", idx, note).as_bytes());
        }
    }
    pub fn eval(&mut self) {
        self.evaluations += 1;
    }
    pub fn evals(&mut self, n: u64) {
        self.evaluations += n;
    }
    pub fn key(&mut self, key: &str) {
        self.distinct.insert(hash_str(key));
    }
    pub fn count(&mut self, name: &str, n: u64) {
        *self.counters.entry(name.to_string()).or_insert(0) += n;
    }
    pub fn sample(&mut self, j: J) {
        if self.samples.len() < 4 {
            self.samples.push(j);
        }
    }
    pub fn want_sample(&self) -> bool {
        self.samples.len() < 4
    }
    /// Report a violation. `sig` identifies *which* input/call site/history class fails (used for
    /// known findings); identical sigs are reported once per shard with the first witness.
    pub fn violation(&mut self, sig: &str, idx: u64, detail: J) {
        self.count(&format!("violation:{}", sig), 1);
        if !self.seen_sigs.insert(sig.to_string()) {
            return;
        }
        self.violations += 1;
        let j = J::obj(vec![("property", J::s(&self.prop)), ("sig", J::s(sig)), ("index", J::U(idx)), ("detail", detail)]);
        println!("VIOLATION-CASE {}", j.dump());
        let _ = std::io::stdout().flush();
    }
    pub fn inconclusive(&mut self, what: &str, detail: J) {
        if self.inconclusive.len() < 8 {
            self.inconclusive.push(J::obj(vec![("what", J::s(what)), ("detail", detail)]));
        }
        self.count(&format!("inconclusive:{}", what), 1);
    }
    pub fn too_many(&self) -> bool {
        self.violations >= self.max_violations
    }
    pub fn finish(self) {
        let mut keys: Vec<u64> = self.distinct.into_iter().collect();
        keys.sort();
        for chunk in keys.chunks(2000) {
            let s: Vec<String> = chunk.iter().map(|k| format!("{:x}", k)).collect();
            println!("KEYS {}", s.join(","));
        }
        for i in &self.inconclusive {
            println!("INCONCLUSIVE {}", i.dump());
        }
        let j = J::obj(vec![
            ("property", J::s(&self.prop)),
            ("evaluations", J::U(self.evaluations)),
            ("trivial", J::U(self.trivial)),
            ("violations", J::U(self.violations)),
            ("counters", J::O(self.counters.iter().map(|(k, v)| (k.clone(), J::U(*v))).collect())),
            ("samples", J::A(self.samples)),
        ]);
        println!("SUMMARY {}", j.dump());
        let _ = std::io::stdout().flush();
    }
}

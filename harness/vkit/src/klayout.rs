//! Kernel-derived wire layout (from /usr/include/linux/fuse.h via a C probe, see build.rs).
use std::collections::HashMap;
use std::sync::OnceLock;

pub struct KField {
    pub name: &'static str,
    pub off: usize,
    pub size: usize,
    pub flex: bool,
}
pub struct KStruct {
    pub name: &'static str,
    pub size: usize,
    pub fields: &'static [KField],
}
include!(concat!(env!("OUT_DIR"), "/klayout.rs"));

struct Index {
    structs: HashMap<&'static str, &'static KStruct>,
    fields: HashMap<(&'static str, &'static str), (usize, usize)>,
    consts: HashMap<&'static str, u64>,
}

fn index() -> &'static Index {
    static IDX: OnceLock<Index> = OnceLock::new();
    IDX.get_or_init(|| {
        let mut structs = HashMap::new();
        let mut fields = HashMap::new();
        for s in KSTRUCTS {
            structs.insert(s.name, s);
            for f in s.fields {
                fields.insert((s.name, f.name), (f.off, f.size));
            }
        }
        let mut consts = HashMap::new();
        for (n, v) in KCONSTS {
            consts.insert(*n, *v);
        }
        Index { structs, fields, consts }
    })
}

pub fn kstruct(name: &str) -> &'static KStruct {
    index().structs.get(name).copied().unwrap_or_else(|| panic!("klayout: no struct {}", name))
}
pub fn ksize(name: &str) -> usize {
    kstruct(name).size
}
pub fn kfield(s: &str, f: &str) -> (usize, usize) {
    *index().fields.get(&(s, f)).unwrap_or_else(|| panic!("klayout: no field {}.{}", s, f))
}
pub fn kconst(name: &str) -> u64 {
    *index().consts.get(name).unwrap_or_else(|| panic!("klayout: no constant {}", name))
}
pub fn kconst_opt(name: &str) -> Option<u64> {
    index().consts.get(name).copied()
}

/// Little-endian store of `val` into field `f` of struct `s` located at `buf[base..]`.
pub fn put(buf: &mut [u8], base: usize, s: &str, f: &str, val: u64) {
    let (off, size) = kfield(s, f);
    let b = val.to_le_bytes();
    buf[base + off..base + off + size].copy_from_slice(&b[..size]);
}
/// Little-endian load; None when the buffer is too short.
pub fn get(buf: &[u8], base: usize, s: &str, f: &str) -> Option<u64> {
    let (off, size) = kfield(s, f);
    if buf.len() < base + off + size {
        return None;
    }
    let mut b = [0u8; 8];
    b[..size].copy_from_slice(&buf[base + off..base + off + size]);
    Some(u64::from_le_bytes(b))
}
pub fn getx(buf: &[u8], base: usize, s: &str, f: &str) -> u64 {
    get(buf, base, s, f).unwrap_or_else(|| panic!("klayout: short buffer for {}.{}", s, f))
}

//! In-process FUSE client: encodes requests / decodes replies with the kernel-derived layout and
//! talks to `Server::handle_message` over the /dev/fuse transport stand-in. Used by the
//! filesystem-level monitors (VFS, passthrough, overlay).
#![cfg(not(miri))]
use fuse_backend_rs::api::filesystem::FileSystem;
use fuse_backend_rs::api::server::Server;

use crate::gen::{header, Body, OUT_HDR};
use crate::klayout::{get, kconst, ksize};
use crate::xport::{run_fusedev, Outcome, SeqSock};

#[derive(Clone, Debug, Default, PartialEq)]
pub struct AttrV {
    pub ino: u64,
    pub size: u64,
    pub blocks: u64,
    pub atime: u64,
    pub mtime: u64,
    pub ctime: u64,
    pub atimensec: u32,
    pub mtimensec: u32,
    pub ctimensec: u32,
    pub mode: u32,
    pub nlink: u32,
    pub uid: u32,
    pub gid: u32,
    pub rdev: u32,
    pub blksize: u32,
    pub flags: u32,
}

#[derive(Clone, Debug, Default, PartialEq)]
pub struct EntryV {
    pub nodeid: u64,
    pub generation: u64,
    pub entry_valid: u64,
    pub attr_valid: u64,
    pub attr: AttrV,
}

#[derive(Clone, Debug, PartialEq)]
pub struct DirentV {
    pub ino: u64,
    pub off: u64,
    pub typ: u32,
    pub name: Vec<u8>,
    pub entry: Option<EntryV>,
}

#[derive(Clone, Debug)]
pub struct Reply {
    /// 0 or a positive errno; -1 when no (or a malformed) reply was produced
    pub errno: i32,
    pub body: Vec<u8>,
    pub records: usize,
    pub ret_err: Option<String>,
    pub panic: Option<String>,
}

pub fn decode_attr(b: &[u8], base: usize, s: &str, pfx: &str) -> AttrV {
    let g = |f: &str| get(b, base, s, &format!("{}{}", pfx, f)).unwrap_or(0);
    AttrV {
        ino: g("ino"),
        size: g("size"),
        blocks: g("blocks"),
        atime: g("atime"),
        mtime: g("mtime"),
        ctime: g("ctime"),
        atimensec: g("atimensec") as u32,
        mtimensec: g("mtimensec") as u32,
        ctimensec: g("ctimensec") as u32,
        mode: g("mode") as u32,
        nlink: g("nlink") as u32,
        uid: g("uid") as u32,
        gid: g("gid") as u32,
        rdev: g("rdev") as u32,
        blksize: g("blksize") as u32,
        flags: g("flags") as u32,
    }
}

pub fn decode_entry(b: &[u8], base: usize, s: &str, pfx: &str) -> EntryV {
    let g = |f: &str| get(b, base, s, &format!("{}{}", pfx, f)).unwrap_or(0);
    EntryV {
        nodeid: g("nodeid"),
        generation: g("generation"),
        entry_valid: g("entry_valid"),
        attr_valid: g("attr_valid"),
        attr: decode_attr(b, base, s, &format!("{}attr.", pfx)),
    }
}

/// Parse a READDIR / READDIRPLUS payload; Err on a malformed stream.
pub fn decode_dirents(b: &[u8], plus: bool) -> Result<Vec<DirentV>, String> {
    let mut out = Vec::new();
    let mut pos = 0usize;
    let eo = if plus { ksize("fuse_entry_out") } else { 0 };
    let dh = ksize("fuse_dirent");
    while pos < b.len() {
        if b.len() - pos < eo + dh {
            return Err(format!("truncated entry header at payload offset {} of {}", pos, b.len()));
        }
        let entry = if plus { Some(decode_entry(b, pos, "fuse_direntplus", "entry_out.")) } else { None };
        let d = pos + eo;
        let ino = get(b, d, "fuse_dirent", "ino").unwrap();
        let off = get(b, d, "fuse_dirent", "off").unwrap();
        let namelen = get(b, d, "fuse_dirent", "namelen").unwrap() as usize;
        let typ = get(b, d, "fuse_dirent", "type").unwrap() as u32;
        let end = d + dh + namelen;
        if end > b.len() {
            return Err(format!("entry at payload offset {} has namelen {} running past the payload ({} bytes)", pos, namelen, b.len()));
        }
        let name = b[d + dh..end].to_vec();
        let padded = (dh + namelen + 7) & !7;
        if d + padded > b.len() {
            return Err(format!("entry at payload offset {} is not padded to 8 bytes inside the payload", pos));
        }
        out.push(DirentV { ino, off, typ, name, entry });
        pos = d + padded;
    }
    Ok(out)
}

pub struct Conn<F: FileSystem + Sync> {
    pub srv: Server<F>,
    pub sock: SeqSock,
    pub unique: u64,
    pub uid: u32,
    pub gid: u32,
    pub pid: u32,
    /// reply buffer capacity (default 128 KiB + 4096: the largest reply the monitors ask for is a 64 KiB READ;
    /// the arena is pattern-filled per request, which dominates run time under ASan with a 1 MiB buffer)
    pub cap: usize,
    pub requests: u64,
    pub last: Option<Outcome>,
}

impl<F: FileSystem + Sync> Conn<F> {
    pub fn new(fs: F) -> Conn<F> {
        Conn { srv: Server::new(fs), sock: SeqSock::new(), unique: 1, uid: 0, gid: 0, pid: 1234, cap: (128 << 10) + 4096, requests: 0, last: None }
    }
    pub fn as_user(&mut self, uid: u32, gid: u32) {
        self.uid = uid;
        self.gid = gid;
    }
    pub fn raw(&mut self, opcode: u32, nodeid: u64, body: &[u8]) -> Reply {
        self.unique += 2;
        let req = header(opcode, self.unique, nodeid, self.uid, self.gid, self.pid, body);
        self.raw_bytes(&req, self.cap)
    }
    pub fn raw_bytes(&mut self, req: &[u8], cap: usize) -> Reply {
        self.requests += 1;
        let out = run_fusedev(&self.srv, &self.sock, req, cap, false, None);
        let mut rep = Reply { errno: -1, body: vec![], records: out.records.len(), ret_err: out.ret.clone().err(), panic: out.panic.clone() };
        if out.records.len() == 1 && out.records[0].len() >= OUT_HDR {
            let r = &out.records[0];
            let err = get(r, 0, "fuse_out_header", "error").unwrap() as u32 as i32;
            rep.errno = -err;
            rep.body = r[OUT_HDR..].to_vec();
        }
        self.last = Some(out);
        rep
    }
    fn op(&mut self, name: &str, nodeid: u64, b: &Body) -> Reply {
        self.raw(kconst(name) as u32, nodeid, &b.b)
    }
    /// like `op`, with a reply buffer that holds `payload` bytes on top of the header whatever the default capacity is
    /// (what a kernel client does: the reply buffer of READ / READDIR is sized after the request)
    fn op_sized(&mut self, name: &str, nodeid: u64, b: &Body, payload: usize) -> Reply {
        self.unique += 2;
        let req = header(kconst(name) as u32, self.unique, nodeid, self.uid, self.gid, self.pid, &b.b);
        let cap = self.cap.max(payload + 4096);
        self.raw_bytes(&req, cap)
    }
    fn entry(rep: Reply) -> Result<EntryV, i32> {
        if rep.errno != 0 {
            return Err(rep.errno);
        }
        if rep.body.len() < ksize("fuse_entry_out") {
            return Err(-2);
        }
        Ok(decode_entry(&rep.body, 0, "fuse_entry_out", ""))
    }
    fn unit(rep: Reply) -> Result<(), i32> {
        if rep.errno != 0 {
            Err(rep.errno)
        } else {
            Ok(())
        }
    }

    pub fn init(&mut self, minor: u32, flags: u64) -> Result<(u64, Vec<u8>), i32> {
        let mut b = Body::new();
        let s = b.st("fuse_init_in");
        b.set(s, "fuse_init_in", "major", 7);
        b.set(s, "fuse_init_in", "minor", minor as u64);
        b.set(s, "fuse_init_in", "max_readahead", 131072);
        // the extension marker only when extended bits are offered (lets a client offer nothing at all)
        let low = (flags & 0xffff_ffff) | if flags >> 32 != 0 { kconst("FUSE_INIT_EXT") } else { 0 };
        b.set(s, "fuse_init_in", "flags", low);
        b.set(s, "fuse_init_in", "flags2", flags >> 32);
        let rep = self.op("FUSE_INIT", 0, &b);
        if rep.errno != 0 {
            return Err(rep.errno);
        }
        let fl = get(&rep.body, 0, "fuse_init_out", "flags").unwrap_or(0);
        let fl2 = get(&rep.body, 0, "fuse_init_out", "flags2").unwrap_or(0);
        let enabled = fl | if fl & kconst("FUSE_INIT_EXT") != 0 { fl2 << 32 } else { 0 };
        Ok((enabled, rep.body))
    }
    pub fn destroy(&mut self) -> Result<(), i32> {
        Self::unit(self.op("FUSE_DESTROY", 0, &Body::new()))
    }
    pub fn lookup(&mut self, parent: u64, name: &[u8]) -> Result<EntryV, i32> {
        let mut b = Body::new();
        b.cstr(name);
        Self::entry(self.op("FUSE_LOOKUP", parent, &b))
    }
    pub fn forget(&mut self, ino: u64, n: u64) -> Reply {
        let mut b = Body::new();
        let s = b.st("fuse_forget_in");
        b.set(s, "fuse_forget_in", "nlookup", n);
        self.op("FUSE_FORGET", ino, &b)
    }
    pub fn batch_forget(&mut self, list: &[(u64, u64)]) -> Reply {
        let mut b = Body::new();
        let s = b.st("fuse_batch_forget_in");
        b.set(s, "fuse_batch_forget_in", "count", list.len() as u64);
        for (n, l) in list {
            let e = b.st("fuse_forget_one");
            b.set(e, "fuse_forget_one", "nodeid", *n);
            b.set(e, "fuse_forget_one", "nlookup", *l);
        }
        self.op("FUSE_BATCH_FORGET", 0, &b)
    }
    pub fn getattr(&mut self, ino: u64, fh: Option<u64>) -> Result<AttrV, i32> {
        let mut b = Body::new();
        let s = b.st("fuse_getattr_in");
        if let Some(h) = fh {
            b.set(s, "fuse_getattr_in", "getattr_flags", kconst("FUSE_GETATTR_FH"));
            b.set(s, "fuse_getattr_in", "fh", h);
        }
        let rep = self.op("FUSE_GETATTR", ino, &b);
        if rep.errno != 0 {
            return Err(rep.errno);
        }
        Ok(decode_attr(&rep.body, 0, "fuse_attr_out", "attr."))
    }
    /// `fields`: (kernel field name of fuse_setattr_in, value); `valid` FATTR_* mask
    pub fn setattr(&mut self, ino: u64, valid: u64, fields: &[(&str, u64)]) -> Result<AttrV, i32> {
        let mut b = Body::new();
        let s = b.st("fuse_setattr_in");
        b.set(s, "fuse_setattr_in", "valid", valid);
        for (f, v) in fields {
            b.set(s, "fuse_setattr_in", f, *v);
        }
        let rep = self.op("FUSE_SETATTR", ino, &b);
        if rep.errno != 0 {
            return Err(rep.errno);
        }
        Ok(decode_attr(&rep.body, 0, "fuse_attr_out", "attr."))
    }
    pub fn readlink(&mut self, ino: u64) -> Result<Vec<u8>, i32> {
        let rep = self.op("FUSE_READLINK", ino, &Body::new());
        if rep.errno != 0 {
            return Err(rep.errno);
        }
        Ok(rep.body)
    }
    pub fn symlink(&mut self, parent: u64, name: &[u8], target: &[u8]) -> Result<EntryV, i32> {
        let mut b = Body::new();
        b.cstr(name);
        b.cstr(target);
        Self::entry(self.op("FUSE_SYMLINK", parent, &b))
    }
    pub fn mknod(&mut self, parent: u64, name: &[u8], mode: u32, rdev: u32, umask: u32) -> Result<EntryV, i32> {
        let mut b = Body::new();
        let s = b.st("fuse_mknod_in");
        b.set(s, "fuse_mknod_in", "mode", mode as u64);
        b.set(s, "fuse_mknod_in", "rdev", rdev as u64);
        b.set(s, "fuse_mknod_in", "umask", umask as u64);
        b.cstr(name);
        Self::entry(self.op("FUSE_MKNOD", parent, &b))
    }
    pub fn mkdir(&mut self, parent: u64, name: &[u8], mode: u32, umask: u32) -> Result<EntryV, i32> {
        let mut b = Body::new();
        let s = b.st("fuse_mkdir_in");
        b.set(s, "fuse_mkdir_in", "mode", mode as u64);
        b.set(s, "fuse_mkdir_in", "umask", umask as u64);
        b.cstr(name);
        Self::entry(self.op("FUSE_MKDIR", parent, &b))
    }
    pub fn unlink(&mut self, parent: u64, name: &[u8]) -> Result<(), i32> {
        let mut b = Body::new();
        b.cstr(name);
        Self::unit(self.op("FUSE_UNLINK", parent, &b))
    }
    pub fn rmdir(&mut self, parent: u64, name: &[u8]) -> Result<(), i32> {
        let mut b = Body::new();
        b.cstr(name);
        Self::unit(self.op("FUSE_RMDIR", parent, &b))
    }
    pub fn rename(&mut self, parent: u64, name: &[u8], newparent: u64, newname: &[u8], flags: Option<u32>) -> Result<(), i32> {
        let mut b = Body::new();
        let opn = if let Some(f) = flags {
            let s = b.st("fuse_rename2_in");
            b.set(s, "fuse_rename2_in", "newdir", newparent);
            b.set(s, "fuse_rename2_in", "flags", f as u64);
            "FUSE_RENAME2"
        } else {
            let s = b.st("fuse_rename_in");
            b.set(s, "fuse_rename_in", "newdir", newparent);
            "FUSE_RENAME"
        };
        b.cstr(name);
        b.cstr(newname);
        Self::unit(self.op(opn, parent, &b))
    }
    pub fn link(&mut self, ino: u64, newparent: u64, newname: &[u8]) -> Result<EntryV, i32> {
        let mut b = Body::new();
        let s = b.st("fuse_link_in");
        b.set(s, "fuse_link_in", "oldnodeid", ino);
        b.cstr(newname);
        Self::entry(self.op("FUSE_LINK", newparent, &b))
    }
    /// returns (fh, open_flags)
    pub fn open(&mut self, ino: u64, flags: u32, dir: bool) -> Result<(u64, u32), i32> {
        let mut b = Body::new();
        let s = b.st("fuse_open_in");
        b.set(s, "fuse_open_in", "flags", flags as u64);
        let rep = self.op(if dir { "FUSE_OPENDIR" } else { "FUSE_OPEN" }, ino, &b);
        if rep.errno != 0 {
            return Err(rep.errno);
        }
        Ok((get(&rep.body, 0, "fuse_open_out", "fh").unwrap_or(0), get(&rep.body, 0, "fuse_open_out", "open_flags").unwrap_or(0) as u32))
    }
    pub fn create(&mut self, parent: u64, name: &[u8], flags: u32, mode: u32, umask: u32) -> Result<(EntryV, u64, u32), i32> {
        let mut b = Body::new();
        let s = b.st("fuse_create_in");
        b.set(s, "fuse_create_in", "flags", flags as u64);
        b.set(s, "fuse_create_in", "mode", mode as u64);
        b.set(s, "fuse_create_in", "umask", umask as u64);
        b.cstr(name);
        let rep = self.op("FUSE_CREATE", parent, &b);
        if rep.errno != 0 {
            return Err(rep.errno);
        }
        let es = ksize("fuse_entry_out");
        if rep.body.len() < es + ksize("fuse_open_out") {
            return Err(-2);
        }
        let e = decode_entry(&rep.body, 0, "fuse_entry_out", "");
        Ok((e, get(&rep.body, es, "fuse_open_out", "fh").unwrap(), get(&rep.body, es, "fuse_open_out", "open_flags").unwrap() as u32))
    }
    pub fn read(&mut self, ino: u64, fh: u64, off: u64, size: u32, flags: u32) -> Result<Vec<u8>, i32> {
        let mut b = Body::new();
        let s = b.st("fuse_read_in");
        b.set(s, "fuse_read_in", "fh", fh);
        b.set(s, "fuse_read_in", "offset", off);
        b.set(s, "fuse_read_in", "size", size as u64);
        b.set(s, "fuse_read_in", "flags", flags as u64);
        let rep = self.op_sized("FUSE_READ", ino, &b, size as usize);
        if rep.errno != 0 {
            return Err(rep.errno);
        }
        Ok(rep.body)
    }
    pub fn write(&mut self, ino: u64, fh: u64, off: u64, data: &[u8], write_flags: u32, flags: u32) -> Result<u32, i32> {
        let mut b = Body::new();
        let s = b.st("fuse_write_in");
        b.set(s, "fuse_write_in", "fh", fh);
        b.set(s, "fuse_write_in", "offset", off);
        b.set(s, "fuse_write_in", "size", data.len() as u64);
        b.set(s, "fuse_write_in", "write_flags", write_flags as u64);
        b.set(s, "fuse_write_in", "flags", flags as u64);
        b.bytes(data);
        let rep = self.op("FUSE_WRITE", ino, &b);
        if rep.errno != 0 {
            return Err(rep.errno);
        }
        Ok(get(&rep.body, 0, "fuse_write_out", "size").unwrap_or(0) as u32)
    }
    pub fn release(&mut self, ino: u64, fh: u64, flags: u32, dir: bool) -> Result<(), i32> {
        let mut b = Body::new();
        let s = b.st("fuse_release_in");
        b.set(s, "fuse_release_in", "fh", fh);
        b.set(s, "fuse_release_in", "flags", flags as u64);
        Self::unit(self.op(if dir { "FUSE_RELEASEDIR" } else { "FUSE_RELEASE" }, ino, &b))
    }
    pub fn flush(&mut self, ino: u64, fh: u64) -> Result<(), i32> {
        let mut b = Body::new();
        let s = b.st("fuse_flush_in");
        b.set(s, "fuse_flush_in", "fh", fh);
        Self::unit(self.op("FUSE_FLUSH", ino, &b))
    }
    pub fn fsync(&mut self, ino: u64, fh: u64, datasync: bool, dir: bool) -> Result<(), i32> {
        let mut b = Body::new();
        let s = b.st("fuse_fsync_in");
        b.set(s, "fuse_fsync_in", "fh", fh);
        b.set(s, "fuse_fsync_in", "fsync_flags", datasync as u64);
        Self::unit(self.op(if dir { "FUSE_FSYNCDIR" } else { "FUSE_FSYNC" }, ino, &b))
    }
    pub fn statfs(&mut self, ino: u64) -> Result<Vec<u8>, i32> {
        let rep = self.op("FUSE_STATFS", ino, &Body::new());
        if rep.errno != 0 {
            return Err(rep.errno);
        }
        Ok(rep.body)
    }
    pub fn setxattr(&mut self, ino: u64, name: &[u8], value: &[u8], flags: u32) -> Result<(), i32> {
        let mut b = Body::new();
        let s = b.st_compat(kconst("FUSE_COMPAT_SETXATTR_IN_SIZE") as usize);
        b.set(s, "fuse_setxattr_in", "size", value.len() as u64);
        b.set(s, "fuse_setxattr_in", "flags", flags as u64);
        b.cstr(name);
        b.bytes(value);
        Self::unit(self.op("FUSE_SETXATTR", ino, &b))
    }
    /// Ok(Ok(value)) or Ok(Err(size)) when size == 0 was asked
    pub fn getxattr(&mut self, ino: u64, name: &[u8], size: u32) -> Result<Result<Vec<u8>, u32>, i32> {
        let mut b = Body::new();
        let s = b.st("fuse_getxattr_in");
        b.set(s, "fuse_getxattr_in", "size", size as u64);
        b.cstr(name);
        let rep = self.op("FUSE_GETXATTR", ino, &b);
        if rep.errno != 0 {
            return Err(rep.errno);
        }
        if size == 0 {
            Ok(Err(get(&rep.body, 0, "fuse_getxattr_out", "size").unwrap_or(0) as u32))
        } else {
            Ok(Ok(rep.body))
        }
    }
    pub fn listxattr(&mut self, ino: u64, size: u32) -> Result<Result<Vec<u8>, u32>, i32> {
        let mut b = Body::new();
        let s = b.st("fuse_getxattr_in");
        b.set(s, "fuse_getxattr_in", "size", size as u64);
        let rep = self.op("FUSE_LISTXATTR", ino, &b);
        if rep.errno != 0 {
            return Err(rep.errno);
        }
        if size == 0 {
            Ok(Err(get(&rep.body, 0, "fuse_getxattr_out", "size").unwrap_or(0) as u32))
        } else {
            Ok(Ok(rep.body))
        }
    }
    pub fn removexattr(&mut self, ino: u64, name: &[u8]) -> Result<(), i32> {
        let mut b = Body::new();
        b.cstr(name);
        Self::unit(self.op("FUSE_REMOVEXATTR", ino, &b))
    }
    /// raw payload of a READDIR(PLUS) reply
    pub fn readdir_raw(&mut self, ino: u64, fh: u64, off: u64, size: u32, plus: bool) -> Result<Vec<u8>, i32> {
        let mut b = Body::new();
        let s = b.st("fuse_read_in");
        b.set(s, "fuse_read_in", "fh", fh);
        b.set(s, "fuse_read_in", "offset", off);
        b.set(s, "fuse_read_in", "size", size as u64);
        let rep = self.op_sized(if plus { "FUSE_READDIRPLUS" } else { "FUSE_READDIR" }, ino, &b, size as usize);
        if rep.errno != 0 {
            return Err(rep.errno);
        }
        Ok(rep.body)
    }
    pub fn readdir(&mut self, ino: u64, fh: u64, off: u64, size: u32, plus: bool) -> Result<Vec<DirentV>, i32> {
        let raw = self.readdir_raw(ino, fh, off, size, plus)?;
        decode_dirents(&raw, plus).map_err(|_| -3)
    }
    pub fn access(&mut self, ino: u64, mask: u32) -> Result<(), i32> {
        let mut b = Body::new();
        let s = b.st("fuse_access_in");
        b.set(s, "fuse_access_in", "mask", mask as u64);
        Self::unit(self.op("FUSE_ACCESS", ino, &b))
    }
    pub fn fallocate(&mut self, ino: u64, fh: u64, mode: u32, off: u64, len: u64) -> Result<(), i32> {
        let mut b = Body::new();
        let s = b.st("fuse_fallocate_in");
        b.set(s, "fuse_fallocate_in", "fh", fh);
        b.set(s, "fuse_fallocate_in", "offset", off);
        b.set(s, "fuse_fallocate_in", "length", len);
        b.set(s, "fuse_fallocate_in", "mode", mode as u64);
        Self::unit(self.op("FUSE_FALLOCATE", ino, &b))
    }
    pub fn lseek(&mut self, ino: u64, fh: u64, off: u64, whence: u32) -> Result<u64, i32> {
        let mut b = Body::new();
        let s = b.st("fuse_lseek_in");
        b.set(s, "fuse_lseek_in", "fh", fh);
        b.set(s, "fuse_lseek_in", "offset", off);
        b.set(s, "fuse_lseek_in", "whence", whence as u64);
        let rep = self.op("FUSE_LSEEK", ino, &b);
        if rep.errno != 0 {
            return Err(rep.errno);
        }
        Ok(get(&rep.body, 0, "fuse_lseek_out", "offset").unwrap_or(0))
    }
}

//! C19 — saving and restoring VFS state reproduces the same namespace (feature `persist`).
//! Differential: after every prefix of a mount/umount/INIT history the live Vfs A is saved,
//! restored into a fresh Vfs B with twin backends re-attached at the recorded indices, and the
//! same request script is run on both; then the next history step is applied to both.
use std::sync::Arc;

use fuse_backend_rs::api::{Vfs, VfsOptions};
use vkit::client::{AttrV, Conn, DirentV, EntryV};
use vkit::json::J;
use vkit::klayout::kconst;
use vkit::prng::Rng;
use vkit::run::{Args, Report};

use crate::numfs::NumFs;
use crate::{Mapping, World, IDS, MAPPINGS, PATHS};

type Fail = (String, String);

fn strip_attr(mut a: AttrV) -> AttrV {
    // pseudo directories stamp "now" into their times
    a.atime = 0;
    a.mtime = 0;
    a.ctime = 0;
    a
}
fn strip_entry(mut e: EntryV) -> EntryV {
    e.attr = strip_attr(e.attr);
    e
}
fn strip_dir(v: Vec<DirentV>) -> Vec<DirentV> {
    v.into_iter()
        .map(|mut d| {
            d.entry = d.entry.map(strip_entry);
            d
        })
        .collect()
}

/// The observation script: everything a client can see of the namespace. Returns a transcript.
fn observe(conn: &mut Conn<Arc<Vfs>>, numbers: &[u64], second_init: bool) -> Vec<String> {
    let mut t = Vec::new();
    // walk every candidate mount path component-wise from the root
    for path in PATHS.iter().chain(["/a/x", "/zz"].iter()) {
        let mut cur = 1u64;
        for comp in path.split('/').filter(|c| !c.is_empty()) {
            conn.as_user(1005, 100004);
            match conn.lookup(cur, comp.as_bytes()) {
                Ok(e) => {
                    t.push(format!("walk {} comp {} -> {:?}", path, comp, strip_entry(e.clone())));
                    if e.nodeid == 0 {
                        break;
                    }
                    cur = e.nodeid;
                }
                Err(er) => {
                    t.push(format!("walk {} comp {} -> errno {}", path, comp, er));
                    break;
                }
            }
        }
        conn.as_user(1000, 9);
        t.push(format!("getattr end of {} ({:#x}) -> {:?}", path, cur, conn.getattr(cur, None).map(strip_attr)));
        t.push(format!("readdirplus end of {} -> {:?}", path, conn.readdir(cur, 0, 0, 8192, true).map(strip_dir)));
    }
    // numbers issued before the save must route to the corresponding backends
    for n in numbers {
        conn.as_user(100000, 0);
        t.push(format!("getattr {:#x} -> {:?}", n, conn.getattr(*n, None).map(strip_attr)));
        t.push(format!("lookup {:#x}/d0 -> {:?}", n, conn.lookup(*n, b"d0").map(strip_entry)));
        conn.as_user(5, 1010);
        t.push(format!(
            "setattr {:#x} -> {:?}",
            n,
            conn.setattr(*n, kconst("FATTR_UID") | kconst("FATTR_GID"), &[("uid", 1000), ("gid", 100004)]).map(strip_attr)
        ));
        t.push(format!("open {:#x} -> {:?}", n, conn.open(*n, 0, false).map(|x| x.0)));
        t.push(format!("opendir {:#x} -> {:?}", n, conn.open(*n, 0, true).map(|x| x.0)));
    }
    if second_init {
        t.push(format!("second INIT -> {:?}", conn.init(33, u64::MAX).map(|x| x.0)));
    }
    t
}

/// What the twin backends saw must be the same too (routing + translated ids).
fn backend_transcript(w: &World) -> Vec<String> {
    w.m.backends.iter().map(|b| format!("backend {} saw {:?}", b.0.id, b.0.take())).collect()
}

fn first_diff(a: &[String], b: &[String]) -> Option<(usize, String, String)> {
    for i in 0..a.len().max(b.len()) {
        let x = a.get(i).cloned().unwrap_or_else(|| "<missing>".into());
        let y = b.get(i).cloned().unwrap_or_else(|| "<missing>".into());
        if x != y {
            return Some((i, x, y));
        }
    }
    None
}

#[derive(Clone, Debug)]
enum Step {
    Mount(&'static str, Option<Mapping>, u64),
    Umount(&'static str),
    Init(u64),
}

/// Build B from A's saved state: fresh Vfs, restore, re-attach twin backends.
fn restore_twin(a: &World, bytes: &mut Vec<u8>, fresh_opts: VfsOptions) -> Result<World, Fail> {
    let mut b = World::new_with(fresh_opts, a.m.global, a.remove_pseudo_root);
    b.vfs.restore_from_bytes(bytes).map_err(|e| ("C19:restore-failed".to_string(), format!("restore_from_bytes failed: {:?}", e)))?;
    // same model, twin backends
    b.m.pseudo = a.m.pseudo.clone();
    b.m.next_pseudo = a.m.next_pseudo;
    b.m.slots = vec![None; 256];
    b.m.slot_mapping = a.m.slot_mapping.clone();
    b.m.no_open = a.m.no_open;
    b.m.no_opendir = a.m.no_opendir;
    b.m.handed = a.m.handed.clone();
    b.next_backend = a.next_backend;
    // keep backend indices aligned with A's vector so transcripts compare one to one
    for ba in &a.m.backends {
        b.m.backends.push(NumFs::new(ba.0.id, ba.0.root_ino, IDS.to_vec()));
    }
    for (p, m) in &a.m.mounts {
        let twin = b.m.backends[m.backend].clone();
        b.vfs
            .restore_mount(Box::new(twin.clone()), m.slot, &m.path)
            .map_err(|e| ("C19:restore-mount-failed".to_string(), format!("restore_mount({}, {}) failed: {:?}", m.slot, m.path, e)))?;
        twin.0.take();
        b.m.slots[m.slot as usize] = Some(m.backend);
        b.m.mounts.insert(*p, m.clone());
    }
    Ok(b)
}

fn apply(w: &mut World, s: &Step) -> String {
    match s {
        Step::Mount(p, g, ri) => {
            let before = w.m.backends.len();
            let r = w.mount(p, *g, *ri);
            let slot = if w.m.backends.len() > before { w.m.pseudo.get(*p).and_then(|pi| w.m.mounts.get(pi)).map(|m| m.slot) } else { None };
            format!("mount({}) -> {:?} slot {:?}", p, r.map_err(|e| e.0), slot)
        }
        Step::Umount(p) => format!("umount({}) -> {:?}", p, w.umount(p).map_err(|e| e.0)),
        Step::Init(f) => {
            let r = w.conn.init(33, *f);
            if let Ok((enabled, _)) = &r {
                w.m.no_open = w.vfs.options().no_open && enabled & kconst("FUSE_NO_OPEN_SUPPORT") != 0;
                w.m.no_opendir = w.vfs.options().no_opendir && enabled & kconst("FUSE_NO_OPENDIR_SUPPORT") != 0;
            }
            format!("INIT({:#x}) -> {:?}", f, r.map(|x| x.0))
        }
    }
}

fn history(args: &Args, rep: &mut Report, idx: u64) {
    let mut r = Rng::derive(args.seed, "C19", idx, 0);
    let global = if r.chance(1, 2) { *r.pick(MAPPINGS) } else { None };
    let mut opts = VfsOptions::default();
    opts.no_open = r.chance(1, 2);
    opts.no_opendir = r.chance(1, 2);
    opts.no_writeback = r.chance(1, 3);
    opts.killpriv_v2 = r.chance(1, 3);
    if let Some(g) = global {
        opts.id_mapping = g;
    }
    let old_format = r.chance(1, 5);
    let fresh_is_default = r.chance(1, 2);
    // a third of the histories run with set_remove_pseudo_root() (the FUSE-style configuration), over
    // single-component paths only
    let rpr = r.chance(1, 3);
    const FLAT: &[&str] = &["/a", "/c", "/e", "/w"];
    let paths: &[&str] = if rpr { FLAT } else { PATHS };
    let mut a = World::new_with(opts, global, rpr);
    let nsteps = r.range(2, 9);
    let mut steps: Vec<Step> = Vec::new();
    let mut did_init = false;
    for _ in 0..nsteps {
        steps.push(match r.below(8) {
            0 if !did_init => {
                did_init = true;
                // includes the "client offers nothing" negotiation
                Step::Init(*r.pick(&[0u64, u64::MAX, 0x1, kconst("FUSE_NO_OPEN_SUPPORT"), 0xffff_ffff]))
            }
            1 | 2 if rpr => Step::Umount(*r.pick(paths)),
            1 => Step::Umount(*r.pick(paths)),
            _ => {
                let given = if !old_format && r.chance(1, 2) { *r.pick(MAPPINGS) } else { None };
                Step::Mount(*r.pick(paths), given, if r.chance(1, 3) { r.range(2, 30) } else { 1 })
            }
        });
    }
    if idx == 0 {
        // directed reproducer of the known finding C19:initialized:client-offered-no-flags
        steps = vec![Step::Init(0), Step::Mount("/a", None, 1)];
    }
    if r.chance(1, 8) {
        // drive the index allocator forward before the interesting steps
        for _ in 0..r.range(10, 260) {
            let _ = a.mount("/w", None, 1);
            let _ = a.umount("/w");
        }
        a.trace.push("(index allocator advanced by a mount/umount burst)".into());
    }
    let mut verdict: Option<Fail> = None;
    let mut evals = 0u64;
    let out0 = apply(&mut a, &steps[0]);
    a.trace.push(out0);
    let mut k = 0usize;
    loop {
        // ---- A has steps[..=k] applied: save, restore into a fresh Vfs, compare
        let saved = if old_format { a.vfs.verif_save_to_bytes_at(1) } else { a.vfs.save_to_bytes() };
        let mut bytes = match saved {
            Ok(b) => b,
            Err(e) => {
                verdict = Some(("C19:save-failed".into(), format!("{:?}", e)));
                break;
            }
        };
        let fresh_opts = if fresh_is_default { VfsOptions::default() } else { opts };
        let fresh = if fresh_is_default { "fresh-default" } else { "fresh-sameopts" };
        let mut b = match restore_twin(&a, &mut bytes, fresh_opts) {
            Ok(b) => b,
            Err(f) => {
                verdict = Some(f);
                break;
            }
        };
        evals += 1;
        rep.key(&format!(
            "{}|{}|init{}|global{}|mounts{}|step{}",
            if old_format { "v1" } else { "v2" },
            fresh,
            a.vfs.initialized(),
            global.is_some(),
            a.m.mounts.len().min(4),
            match &steps[k] {
                Step::Mount(..) => "mount",
                Step::Umount(..) => "umount",
                Step::Init(..) => "init",
            }
        ));
        if a.vfs.initialized() != b.vfs.initialized() {
            verdict = Some((
                format!("C19:initialized:{}", if a.vfs.options().in_opts.is_empty() { "client-offered-no-flags" } else { "flags-negotiated" }),
                format!("live Vfs initialized={} (negotiated in_opts {:?}), restored Vfs initialized={}", a.vfs.initialized(), a.vfs.options().in_opts, b.vfs.initialized()),
            ));
            break;
        }
        let (oa, ob) = (a.vfs.options(), b.vfs.options());
        if format!("{:?}", oa) != format!("{:?}", ob) {
            verdict = Some(("C19:options".into(), format!("options differ: live {:?} restored {:?}", oa, ob)));
            break;
        }
        let numbers: Vec<u64> = a.m.handed.iter().rev().take(6).copied().collect();
        let ta = observe(&mut a.conn, &numbers, false);
        let tb = observe(&mut b.conn, &numbers, false);
        if let Some((i, x, y)) = first_diff(&ta, &tb) {
            let kind = if strip_ids(&x) == strip_ids(&y) { "owner-ids" } else { "namespace" };
            verdict = Some((format!("C19:observe:{}:{}", kind, fresh), format!("script line {}: live `{}` restored `{}`", i, x, y)));
            break;
        }
        let (la, lb) = (backend_transcript(&a), backend_transcript(&b));
        if let Some((i, x, y)) = first_diff(&la, &lb) {
            verdict = Some((format!("C19:backend-view:{}", fresh), format!("backend log {}: live `{}` restored `{}`", i, x, y)));
            break;
        }
        // ---- the next operation applied to both must behave the same (indices, numbers)
        let last = k + 1 >= steps.len();
        let next = if last { Step::Mount("/n/e/w", None, 1) } else { steps[k + 1].clone() };
        let ra = apply(&mut a, &next);
        let rb = apply(&mut b, &next);
        a.trace.push(ra.clone());
        if ra != rb {
            verdict = Some((format!("C19:continuation:{}", fresh), format!("after save/restore the next operation differs: live `{}` restored `{}`", ra, rb)));
            break;
        }
        let ta = observe(&mut a.conn, &[], last);
        let tb = observe(&mut b.conn, &[], last);
        if let Some((i, x, y)) = first_diff(&ta, &tb) {
            let kind = if strip_ids(&x) == strip_ids(&y) { "owner-ids" } else { "namespace" };
            verdict = Some((format!("C19:continuation-observe:{}:{}", kind, fresh), format!("script line {} after continuing: live `{}` restored `{}`", i, x, y)));
            break;
        }
        let (la, lb) = (backend_transcript(&a), backend_transcript(&b));
        if let Some((i, x, y)) = first_diff(&la, &lb) {
            verdict = Some((format!("C19:continuation-backend-view:{}", fresh), format!("backend log {}: live `{}` restored `{}`", i, x, y)));
            break;
        }
        if last {
            break;
        }
        k += 1;
    }
    rep.evals(evals.max(1));
    rep.count("histories", 1);
    rep.count("save_restore_points", evals);
    rep.count(if old_format { "format:v1" } else { "format:v2" }, 1);
    if let Some((sig, why)) = verdict {
        rep.violation(
            &sig,
            idx,
            J::obj(vec![
                ("why", J::s(why)),
                ("options", J::s(format!("{:?}", opts))),
                ("fresh_vfs", J::s(if fresh_is_default { "Vfs::new(VfsOptions::default())" } else { "Vfs::new(same options)" })),
                ("format", J::s(if old_format { "version 1 (verif_save_to_bytes_at)" } else { "current" })),
                ("history", J::A(a.trace.iter().rev().take(30).rev().map(J::s).collect())),
            ]),
        );
    } else if rep.want_sample() {
        rep.sample(J::obj(vec![("history", J::A(a.trace.iter().take(10).map(J::s).collect())), ("save_restore_points", J::U(evals))]));
    }
}

/// remove uid/gid numbers from a transcript line (to classify a difference)
fn strip_ids(s: &str) -> String {
    let mut out = String::new();
    let mut it = s.split(", ").peekable();
    while let Some(p) = it.next() {
        if p.starts_with("uid: ") || p.starts_with("gid: ") {
            out.push_str("id");
        } else {
            out.push_str(p);
        }
        out.push(',');
    }
    out
}

pub fn run(args: &Args, rep: &mut Report) {
    for idx in args.indices() {
        if rep.too_many() {
            break;
        }
        rep.begin(idx, "persist-history");
        // a panic inside the crate (e.g. a restored VFS that cannot mount any more) is a finding about the
        // property; a panic of the harness itself is not
        if let Err(p) = vkit::xport::guarded(|| history(args, &mut *rep, idx)) {
            let loc = p.rsplit(" @ ").next().unwrap_or("");
            let in_crate = loc.starts_with('/') && loc.contains("/src/") && !loc.contains("/harness/") && !loc.contains("/.cargo/") && !loc.contains("/rustc/");
            if in_crate {
                let file = loc.rsplit("/src/").next().unwrap_or(loc);
                rep.violation(&format!("C19:crate-panic:{}", file.split(':').next().unwrap_or("")), idx, J::obj(vec![("why", J::s(format!("the crate panicked while the saved/restored history was replayed: {}", p)))]));
            } else {
                eprintln!("HARNESS-PANIC: {}", p);
                std::process::exit(101);
            }
        }
    }
}

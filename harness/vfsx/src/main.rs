//! C07 / C14 (/ C19 with feature persist) — VFS routing, id mapping and persistence monitors.
//! N numbered self-consistent backends are mounted in a real `Vfs` behind a real `Server`; a
//! client-side model tracks slots, mount points, pseudo directories and mappings; every request
//! is checked for "exactly the owning backend, with its own inode number, with translated ids".
mod numfs;
#[cfg(feature = "persist")]
mod persist;

use std::collections::{BTreeMap, HashMap};
use std::sync::Arc;

use fuse_backend_rs::api::{Vfs, VfsOptions};
use numfs::{BCall, NumFs, DIR_NAMES};
use vkit::client::Conn;
use vkit::gen::Body;
use vkit::json::J;
use vkit::klayout::kconst;
use vkit::prng::Rng;
use vkit::run::{Args, Report};

pub type Mapping = (u32, u32, u32); // (internal, external, range) as in VfsOptions::id_mapping

pub fn remap(v: u32, from: u32, to: u32, range: u32) -> u32 {
    if v >= from && v - from < range {
        v - from + to
    } else {
        v
    }
}
pub fn e2i(m: Option<Mapping>, v: u32) -> u32 {
    match m {
        Some((i, e, r)) if r != 0 => remap(v, e, i, r),
        _ => v,
    }
}
pub fn i2e(m: Option<Mapping>, v: u32) -> u32 {
    match m {
        Some((i, e, r)) if r != 0 => remap(v, i, e, r),
        _ => v,
    }
}

pub const IDS: &[u32] = &[0, 1, 5, 9, 10, 11, 999, 1000, 1005, 1009, 1010, 65535, 65536, 65537, 100000, 100004, 165535, 165536, 4294967295];
pub const MAPPINGS: &[Option<Mapping>] =
    &[None, None, Some((0, 1000, 10)), Some((5, 100000, 65536)), Some((0, 1, 65536)), Some((1000, 0, 1)), Some((10, 0, 4294967295))];
pub const PATHS: &[&str] = &["/", "/a", "/a/b", "/c", "/a/b/d", "/e", "/w"];
const MASK: u64 = (1 << 56) - 1;

#[derive(Clone, Debug)]
pub struct Mnt {
    pub slot: u8,
    pub backend: usize,
    pub given: Option<Mapping>,
    pub path: String,
}

pub struct Model {
    pub global: Option<Mapping>,
    pub pseudo: BTreeMap<String, u64>,
    pub next_pseudo: u64,
    pub mounts: HashMap<u64, Mnt>,
    pub slots: Vec<Option<usize>>,
    pub slot_mapping: Vec<Option<Mapping>>,
    pub backends: Vec<NumFs>,
    pub handed: Vec<u64>,
    pub no_open: bool,
    pub no_opendir: bool,
}

#[derive(Debug, Clone, PartialEq)]
pub enum Route {
    Backend { b: usize, slot: u8, ino: u64 },
    Pseudo { ino: u64 },
    Vacant,
}

impl Model {
    pub fn new(global: Option<Mapping>) -> Model {
        let mut pseudo = BTreeMap::new();
        pseudo.insert("/".to_string(), 1u64);
        Model {
            global,
            pseudo,
            next_pseudo: 2,
            mounts: HashMap::new(),
            slots: vec![None; 256],
            slot_mapping: vec![None; 256],
            backends: Vec::new(),
            handed: vec![1],
            no_open: false,
            no_opendir: false,
        }
    }
    pub fn eff(&self, slot: u8) -> Option<Mapping> {
        self.slot_mapping[slot as usize].or(self.global)
    }
    pub fn route(&self, n: u64) -> Route {
        let slot = (n >> 56) as u8;
        let ino = n & MASK;
        if slot == 0 {
            if ino == 1 {
                if let Some(m) = self.mounts.get(&1) {
                    return Route::Backend { b: m.backend, slot: m.slot, ino: self.backends[m.backend].0.root_ino };
                }
            }
            return Route::Pseudo { ino };
        }
        match self.slots[slot as usize] {
            Some(b) => Route::Backend { b, slot, ino },
            None => Route::Vacant,
        }
    }
    pub fn pseudo_path(&self, ino: u64) -> Option<String> {
        self.pseudo.iter().find(|(_, v)| **v == ino).map(|(k, _)| k.clone())
    }
    /// create pseudo nodes for every component of `path` (allocation order = creation order)
    pub fn ensure_path(&mut self, path: &str) -> u64 {
        if path == "/" {
            return 1;
        }
        let mut cur = String::new();
        let mut ino = 1;
        for comp in path.split('/').filter(|c| !c.is_empty()) {
            cur.push('/');
            cur.push_str(comp);
            ino = match self.pseudo.get(&cur) {
                Some(i) => *i,
                None => {
                    let i = self.next_pseudo;
                    self.next_pseudo += 1;
                    self.pseudo.insert(cur.clone(), i);
                    i
                }
            };
        }
        ino
    }
    pub fn children(&self, dir: &str) -> Vec<(String, u64)> {
        let prefix = if dir == "/" { "/".to_string() } else { format!("{}/", dir) };
        // creation order == inode order
        let mut v: Vec<(String, u64)> = self
            .pseudo
            .iter()
            .filter(|(k, _)| k.as_str() != "/" && k.starts_with(&prefix) && !k[prefix.len()..].contains('/'))
            .map(|(k, v)| (k[prefix.len()..].to_string(), *v))
            .collect();
        v.sort_by_key(|(_, i)| *i);
        v
    }
}

pub struct World {
    pub conn: Conn<Arc<Vfs>>,
    pub vfs: Arc<Vfs>,
    pub m: Model,
    pub trace: Vec<String>,
    pub next_backend: u32,
    /// Vfs::set_remove_pseudo_root(): umount evicts the mount point's pseudo directory (only used with
    /// single-component paths, so no pseudo directory is ever orphaned)
    pub remove_pseudo_root: bool,
}

type Fail = (String, String);

impl World {
    pub fn new(opts: VfsOptions, global: Option<Mapping>) -> World {
        Self::new_with(opts, global, false)
    }
    pub fn new_with(opts: VfsOptions, global: Option<Mapping>, remove_pseudo_root: bool) -> World {
        let mut v = Vfs::new(opts);
        if remove_pseudo_root {
            v.set_remove_pseudo_root();
        }
        let vfs = Arc::new(v);
        let conn = Conn::new(vfs.clone());
        World { conn, vfs, m: Model::new(global), trace: Vec::new(), next_backend: 1, remove_pseudo_root }
    }
    pub fn drain_logs(&self) -> Vec<(usize, Vec<BCall>)> {
        self.m.backends.iter().enumerate().map(|(i, b)| (i, b.0.take())).filter(|(_, l)| !l.is_empty()).collect()
    }

    pub fn mount(&mut self, path: &str, given: Option<Mapping>, root_ino: u64) -> Result<(), Fail> {
        let id = self.next_backend;
        self.next_backend += 1;
        let fs = NumFs::new(id, root_ino, IDS.to_vec());
        self.trace.push(format!("mount({}, mapping={:?}, backend={}, root_ino={})", path, given, id, root_ino));
        let was_mounted_at = self.m.pseudo.get(path).and_then(|p| self.m.mounts.get(p)).cloned();
        let res = self.vfs.mount_with_id_mapping(Box::new(fs.clone()), path, given);
        let idx = match res {
            Ok(i) => i,
            Err(e) => {
                // only legitimate when all 255 slots are taken
                if self.m.slots.iter().filter(|s| s.is_some()).count() >= 255 {
                    return Ok(());
                }
                return Err(("C07:mount-failed".into(), format!("mount({}) failed: {:?}", path, e)));
            }
        };
        fs.0.take();
        if idx == 0 {
            return Err(("C07:mount-slot0".into(), "mount returned the pseudo filesystem's index 0".into()));
        }
        if let Some(b) = self.m.slots[idx as usize] {
            return Err((
                "C07:mount-slot-in-use".into(),
                format!("mount({}) was given slot {} which backend {} still occupies", path, idx, self.m.backends[b].0.id),
            ));
        }
        self.m.backends.push(fs);
        let bidx = self.m.backends.len() - 1;
        let p = self.m.ensure_path(path);
        if let Some(old) = was_mounted_at {
            // over-mount: the old mount's slot is released
            self.m.slots[old.slot as usize] = None;
            self.m.slot_mapping[old.slot as usize] = None;
        }
        self.m.slots[idx as usize] = Some(bidx);
        self.m.slot_mapping[idx as usize] = given;
        self.m.mounts.insert(p, Mnt { slot: idx, backend: bidx, given, path: path.to_string() });
        self.m.handed.push(((idx as u64) << 56) | root_ino);
        Ok(())
    }

    /// In-place replacement of the backend of an existing mount (`restore_mount` with the mount's own index,
    /// the way a backend is re-attached after a restore): the slot and the mount point now belong to the new backend.
    pub fn replace(&mut self, path: &str) -> Result<(), Fail> {
        let p = match self.m.pseudo.get(path).copied() {
            Some(p) => p,
            None => return Ok(()),
        };
        let mnt = match self.m.mounts.get(&p) {
            Some(m) => Mnt { slot: m.slot, backend: m.backend, given: m.given, path: m.path.clone() },
            None => return Ok(()),
        };
        let id = self.next_backend;
        self.next_backend += 1;
        let root_ino = self.m.backends[mnt.backend].0.root_ino;
        let fs = NumFs::new(id, root_ino, IDS.to_vec());
        self.trace.push(format!("restore_mount({}, slot {}, backend={} replacing backend {})", path, mnt.slot, id, self.m.backends[mnt.backend].0.id));
        if let Err(e) = self.vfs.restore_mount(Box::new(fs.clone()), mnt.slot, path) {
            return Err(("C07:replace-failed".into(), format!("restore_mount({}, {}) failed: {:?}", path, mnt.slot, e)));
        }
        fs.0.take();
        self.m.backends[mnt.backend].0.take();
        self.m.backends.push(fs);
        let bidx = self.m.backends.len() - 1;
        self.m.slots[mnt.slot as usize] = Some(bidx);
        self.m.mounts.insert(p, Mnt { slot: mnt.slot, backend: bidx, given: mnt.given, path: mnt.path });
        Ok(())
    }

    pub fn umount(&mut self, path: &str) -> Result<(), Fail> {
        self.trace.push(format!("umount({})", path));
        let p = self.m.pseudo.get(path).copied();
        let mnt = p.and_then(|p| self.m.mounts.get(&p).cloned());
        let res = self.vfs.umount(path);
        match (mnt, res) {
            (Some(m), Ok(_)) => {
                self.m.mounts.remove(&p.unwrap());
                if self.remove_pseudo_root && path != "/" {
                    // the mount point's pseudo directory is evicted: its number is gone, a later mount gets a new one
                    self.m.pseudo.remove(path);
                    self.m.handed.retain(|h| *h != p.unwrap());
                }
                self.m.slots[m.slot as usize] = None;
                self.m.slot_mapping[m.slot as usize] = None;
                let log = self.m.backends[m.backend].0.take();
                if !log.iter().any(|c| c.method == "destroy") {
                    return Err(("C07:umount-no-destroy".into(), format!("umount({}) did not destroy the backend", path)));
                }
                Ok(())
            }
            (None, Err(_)) => Ok(()),
            (Some(_), Err(e)) => Err(("C07:umount-failed".into(), format!("umount({}) of a mounted path failed: {:?}", path, e))),
            (None, Ok(_)) => Err(("C07:umount-phantom".into(), format!("umount({}) succeeded although nothing is mounted there", path))),
        }
    }
}

fn is_entry_op(k: &str) -> bool {
    matches!(k, "lookup" | "mkdir" | "mknod" | "symlink" | "create" | "link")
}

/// One client request on inode `n`, with full routing / consistency / id checks.
pub fn request(w: &mut World, r: &mut Rng, kind: &'static str, n: u64, n2: u64, name: &[u8], rep: &mut Report) -> Result<(), Fail> {
    let uid = *r.pick(IDS);
    let gid = *r.pick(IDS);
    w.conn.as_user(uid, gid);
    let set_uid = *r.pick(IDS);
    let set_gid = *r.pick(IDS);
    // which owner ids a SETATTR sets: both (chown u:g), only the user, only the group; plus unrelated bits
    let (set_u, set_g) = *r.pick(&[(true, true), (true, true), (true, false), (false, true)]);
    let set_extra = if r.chance(1, 2) { kconst("FATTR_MODE") } else { 0 };
    w.trace.push(format!("{}(ino={:#x}, ino2={:#x}, name={:?}, uid={}, gid={})", kind, n, n2, String::from_utf8_lossy(name), uid, gid));
    let route = w.m.route(n);
    let route2 = w.m.route(n2);
    // ---- perform
    let mut entry: Option<Result<vkit::client::EntryV, i32>> = None;
    let mut attr: Option<Result<vkit::client::AttrV, i32>> = None;
    let mut dirents: Option<Result<Vec<vkit::client::DirentV>, i32>> = None;
    let mut status: Option<Result<(), i32>> = None;
    match kind {
        "lookup" => entry = Some(w.conn.lookup(n, name)),
        "mkdir" => entry = Some(w.conn.mkdir(n, name, 0o755, 0)),
        "mknod" => entry = Some(w.conn.mknod(n, name, libc::S_IFREG | 0o644, 0, 0)),
        "symlink" => entry = Some(w.conn.symlink(n, name, b"t")),
        "create" => entry = Some(w.conn.create(n, name, libc::O_RDWR as u32, 0o644, 0).map(|x| x.0)),
        "link" => entry = Some(w.conn.link(n, n2, name)),
        "getattr" => attr = Some(w.conn.getattr(n, None)),
        "setattr" => {
            let valid = if set_u { kconst("FATTR_UID") } else { 0 } | if set_g { kconst("FATTR_GID") } else { 0 } | set_extra;
            attr = Some(w.conn.setattr(n, valid, &[("uid", set_uid as u64), ("gid", set_gid as u64), ("mode", 0o640)]))
        }
        "readdir" => dirents = Some(w.conn.readdir(n, 0, 0, 4096, false)),
        "readdirplus" => dirents = Some(w.conn.readdir(n, 0, 0, 8192, true)),
        "unlink" => status = Some(w.conn.unlink(n, name)),
        "rmdir" => status = Some(w.conn.rmdir(n, name)),
        "rename" => status = Some(w.conn.rename(n, name, n2, b"newname", if r.chance(1, 2) { Some(0) } else { None })),
        "open" => status = Some(w.conn.open(n, 0, false).map(|_| ())),
        "opendir" => status = Some(w.conn.open(n, 0, true).map(|_| ())),
        "release" => status = Some(w.conn.release(n, 1, 0, false)),
        "releasedir" => status = Some(w.conn.release(n, 1, 0, true)),
        "read" => status = Some(w.conn.read(n, 1, 0, 64, 0).map(|_| ())),
        "write" => status = Some(w.conn.write(n, 1, 0, b"data", 0, 0).map(|_| ())),
        "flush" => status = Some(w.conn.flush(n, 1)),
        "fsync" => status = Some(w.conn.fsync(n, 1, false, false)),
        "fsyncdir" => status = Some(w.conn.fsync(n, 1, false, true)),
        "fallocate" => status = Some(w.conn.fallocate(n, 1, 0, 0, 10)),
        "statfs" => status = Some(w.conn.statfs(n).map(|_| ())),
        "access" => status = Some(w.conn.access(n, 4)),
        "readlink" => status = Some(w.conn.readlink(n).map(|_| ())),
        "setxattr" => status = Some(w.conn.setxattr(n, b"user.x", b"v", 0)),
        "getxattr" => status = Some(w.conn.getxattr(n, b"user.x", 64).map(|_| ())),
        "listxattr" => status = Some(w.conn.listxattr(n, 64).map(|_| ())),
        "removexattr" => status = Some(w.conn.removexattr(n, b"user.x")),
        "forget" => {
            w.conn.forget(n, 1);
            status = Some(Ok(()));
        }
        "batch_forget" => {
            w.conn.batch_forget(&[(n, 1), (n2, 2)]);
            status = Some(Ok(()));
        }
        "lseek" => status = Some(w.conn.lseek(n, 1, 0, 0).map(|_| ())),
        "getlk" | "bmap" | "poll" | "ioctl" => {
            let (opn, st) = match kind {
                "getlk" => ("FUSE_GETLK", "fuse_lk_in"),
                "bmap" => ("FUSE_BMAP", "fuse_bmap_in"),
                "poll" => ("FUSE_POLL", "fuse_poll_in"),
                _ => ("FUSE_IOCTL", "fuse_ioctl_in"),
            };
            let mut b = Body::new();
            b.st(st);
            let rp = w.conn.raw(kconst(opn) as u32, n, &b.b);
            status = Some(if rp.errno == 0 { Ok(()) } else { Err(rp.errno) });
        }
        other => panic!("unknown kind {}", other),
    }
    if let Some(p) = w.conn.last.as_ref().and_then(|o| o.panic.clone()) {
        return Err((format!("C07:panic:{}", kind), p));
    }
    let logs = w.drain_logs();
    let ok = entry.as_ref().map(|e| e.is_ok()).or(attr.as_ref().map(|e| e.is_ok())).or(dirents.as_ref().map(|e| e.is_ok())).or(status.as_ref().map(|e| e.is_ok())).unwrap();
    let errno = entry.as_ref().and_then(|e| e.clone().err()).or(attr.as_ref().and_then(|e| e.clone().err())).or(dirents.as_ref().and_then(|e| e.clone().err())).or(status.as_ref().and_then(|e| e.clone().err()));
    let total_calls: usize = logs.iter().map(|(_, l)| l.len()).sum();
    let slot_state = match &route {
        Route::Backend { .. } => "backend",
        Route::Pseudo { .. } => "pseudo",
        Route::Vacant => "vacant",
    };
    rep.count(&format!("req:{}:{}", kind, slot_state), 1);

    // ---- bad names: rejected before any backend is touched (C06, VFS-fronted half)
    let bad_name = name == b"." || name == b".." || name.contains(&b'/');
    let name_op = matches!(kind, "lookup" | "mkdir" | "mknod" | "symlink" | "create" | "link" | "unlink" | "rmdir" | "rename");
    if name_op && bad_name && (kind != "lookup" || name.contains(&b'/')) {
        if errno != Some(libc::EINVAL) {
            return Err((format!("C06:vfs-bad-name-accepted:{}", kind), format!("{} with name {:?} answered {:?} instead of EINVAL", kind, String::from_utf8_lossy(name), errno)));
        }
        if total_calls != 0 {
            return Err((format!("C06:vfs-bad-name-reached-backend:{}", kind), format!("{} with name {:?} reached a backend: {:?}", kind, String::from_utf8_lossy(name), logs)));
        }
        return Ok(());
    }
    // operations the Vfs type does not implement reach no backend (documented limitation)
    if matches!(kind, "lseek" | "getlk" | "bmap" | "poll" | "ioctl") {
        rep.count("unserved_by_vfs", 1);
        if total_calls != 0 {
            return Err((format!("C07:unserved-reached-backend:{}", kind), format!("{:?}", logs)));
        }
        return Ok(());
    }
    let two_inode = matches!(kind, "link" | "rename");
    if kind == "batch_forget" {
        // each element routes on its own; elements naming pseudo inodes or vacant slots reach nobody
        let mut want: Vec<(usize, u64)> = Vec::new();
        for rt in [&route, &route2] {
            if let Route::Backend { b, ino, .. } = rt {
                want.push((*b, *ino));
            }
        }
        let mut got: Vec<(usize, u64)> = Vec::new();
        for (bi, l) in &logs {
            for c in l {
                if c.method != "forget" {
                    return Err(("C07:batch-forget-method".into(), format!("{:?}", c)));
                }
                got.push((*bi, c.inode));
            }
        }
        want.sort();
        got.sort();
        if want != got {
            return Err(("C07:batch-forget-routing".into(), format!("batch forget of [{:#x}, {:#x}] reached {:?}, expected {:?}", n, n2, got, want)));
        }
        return Ok(());
    }
    match (&route, kind) {
        (Route::Vacant, _) => {
            if total_calls != 0 {
                return Err((format!("C07:vacant-slot-reached-backend:{}", kind), format!("request on inode {:#x} (vacant slot) reached {:?}", n, logs)));
            }
            if ok && !matches!(kind, "forget" | "batch_forget") {
                return Err((format!("C07:vacant-slot-succeeded:{}", kind), format!("request on inode {:#x} (vacant slot) succeeded", n)));
            }
            return Ok(());
        }
        (Route::Pseudo { ino }, _) => {
            if kind == "batch_forget" {
                return Ok(());
            }
            if total_calls != 0 {
                return Err((format!("C07:pseudo-reached-backend:{}", kind), format!("request on pseudo inode {} reached {:?}", ino, logs)));
            }
            let dir = w.m.pseudo_path(*ino);
            match kind {
                "lookup" => {
                    let e = entry.unwrap();
                    let dir = match dir {
                        Some(d) => d,
                        None => return Ok(()),
                    };
                    let child_path = if name == b"." {
                        dir.clone()
                    } else if name == b".." {
                        match dir.rfind('/') {
                            Some(0) | None => "/".to_string(),
                            Some(k) => dir[..k].to_string(),
                        }
                    } else if dir == "/" {
                        format!("/{}", String::from_utf8_lossy(name))
                    } else {
                        format!("{}/{}", dir, String::from_utf8_lossy(name))
                    };
                    match w.m.pseudo.get(&child_path).copied() {
                        None => {
                            if let Ok(ev) = &e {
                                if ev.nodeid != 0 {
                                    return Err(("C07:pseudo-lookup-phantom".into(), format!("lookup of {} found {:#x}", child_path, ev.nodeid)));
                                }
                            }
                        }
                        Some(p2) => {
                            let ev = match e {
                                Ok(ev) => ev,
                                Err(er) => return Err(("C07:pseudo-lookup-failed".into(), format!("lookup of existing pseudo path {} failed with {}", child_path, er))),
                            };
                            if let Some(m) = w.m.mounts.get(&p2) {
                                let b = &w.m.backends[m.backend].0;
                                let want = ((m.slot as u64) << 56) | b.root_ino;
                                if ev.nodeid != want || ev.attr.ino != want {
                                    return Err((
                                        "C07:mount-crossing-number".into(),
                                        format!("lookup crossing into the mount at {} returned nodeid {:#x} attr.ino {:#x}, expected {:#x}", child_path, ev.nodeid, ev.attr.ino, want),
                                    ));
                                }
                                let (ou, og) = b.owner(b.root_ino);
                                let eff = w.m.eff(m.slot);
                                if ev.attr.uid != i2e(eff, ou) || ev.attr.gid != i2e(eff, og) {
                                    return Err((
                                        "C14:mount-root-lookup-owner".into(),
                                        format!(
                                            "mount root at {}: backend owner ({}, {}), effective mapping {:?}: expected ({}, {}) in the lookup reply, got ({}, {})",
                                            child_path, ou, og, eff, i2e(eff, ou), i2e(eff, og), ev.attr.uid, ev.attr.gid
                                        ),
                                    ));
                                }
                                w.m.handed.push(ev.nodeid);
                            } else if ev.nodeid != p2 || ev.attr.ino != p2 {
                                return Err(("C07:pseudo-number".into(), format!("pseudo directory {} has number {} in the model, lookup returned {:#x}", child_path, p2, ev.nodeid)));
                            } else {
                                w.m.handed.push(ev.nodeid);
                            }
                        }
                    }
                }
                "readdir" | "readdirplus" => {
                    let dir = match dir {
                        Some(d) => d,
                        None => return Ok(()),
                    };
                    let ents = match dirents.unwrap() {
                        Ok(e) => e,
                        Err(er) => return Err(("C07:pseudo-readdir-failed".into(), format!("readdir of pseudo directory {} failed with {}", dir, er))),
                    };
                    let want = w.m.children(&dir);
                    let got: Vec<String> = ents.iter().map(|e| String::from_utf8_lossy(&e.name).to_string()).collect();
                    let wantn: Vec<String> = want.iter().map(|(n, _)| n.clone()).collect();
                    if got != wantn {
                        return Err(("C07:pseudo-readdir-names".into(), format!("pseudo directory {} lists {:?}, expected {:?}", dir, got, wantn)));
                    }
                    for (e, (cname, p2)) in ents.iter().zip(want.iter()) {
                        let (want_ino, owner) = match w.m.mounts.get(p2) {
                            Some(m) => {
                                let b = &w.m.backends[m.backend].0;
                                let (ou, og) = b.owner(b.root_ino);
                                let eff = w.m.eff(m.slot);
                                (((m.slot as u64) << 56) | b.root_ino, Some((i2e(eff, ou), i2e(eff, og), ou, og, eff)))
                            }
                            None => (*p2, None),
                        };
                        if e.ino != want_ino {
                            return Err(("C07:pseudo-readdir-number".into(), format!("entry {} of pseudo directory {} has ino {:#x}, expected {:#x}", cname, dir, e.ino, want_ino)));
                        }
                        if let Some(en) = &e.entry {
                            if en.nodeid != want_ino || en.attr.ino != want_ino {
                                return Err(("C07:pseudo-readdirplus-number".into(), format!("entry {}: nodeid {:#x} attr.ino {:#x}, expected {:#x}", cname, en.nodeid, en.attr.ino, want_ino)));
                            }
                            if let Some((wu, wg, ou, og, eff)) = owner {
                                if en.attr.uid != wu || en.attr.gid != wg {
                                    return Err((
                                        "C14:mount-root-readdirplus-owner".into(),
                                        format!("mount root {}: backend owner ({}, {}), mapping {:?}: expected ({}, {}), readdirplus says ({}, {})", cname, ou, og, eff, wu, wg, en.attr.uid, en.attr.gid),
                                    ));
                                }
                            }
                        }
                    }
                }
                _ => {}
            }
            return Ok(());
        }
        (Route::Backend { b, slot, ino }, _) => {
            // two-inode operations must stay inside one mount
            if two_inode {
                let same = match &route2 {
                    Route::Backend { slot: s2, .. } => s2 == slot,
                    _ => false,
                };
                if !same {
                    if total_calls != 0 {
                        return Err((format!("C07:cross-mount-reached-backend:{}", kind), format!("{} spanning {:#x} and {:#x} reached {:?}", kind, n, n2, logs)));
                    }
                    if ok {
                        return Err((format!("C07:cross-mount-accepted:{}", kind), format!("{} spanning {:#x} and {:#x} succeeded", kind, n, n2)));
                    }
                    return Ok(());
                }
            }
            let no_handle_op = (kind == "open" && w.m.no_open) || (kind == "opendir" && w.m.no_opendir);
            if no_handle_op {
                if errno != Some(libc::ENOSYS) || total_calls != 0 {
                    return Err((format!("C12:vfs-{}-not-enosys", kind), format!("zero-message {} negotiated but the request answered {:?} / reached {:?}", kind, errno, logs)));
                }
                return Ok(());
            }
            let eff = w.m.eff(*slot);
            let bs = w.m.backends[*b].0.clone();
            if kind == "batch_forget" {
                // each element routes on its own
                let mut want: Vec<(usize, u64)> = vec![(*b, *ino)];
                if let Route::Backend { b: b2, ino: i2, .. } = &route2 {
                    want.push((*b2, *i2));
                }
                let mut got: Vec<(usize, u64)> = Vec::new();
                for (bi, l) in &logs {
                    for c in l {
                        if c.method != "forget" {
                            return Err(("C07:batch-forget-method".into(), format!("{:?}", c)));
                        }
                        got.push((*bi, c.inode));
                    }
                }
                want.sort();
                got.sort();
                if want != got {
                    return Err(("C07:batch-forget-routing".into(), format!("batch forget of [{:#x}, {:#x}] reached {:?}, expected {:?}", n, n2, got, want)));
                }
                return Ok(());
            }
            // exactly one backend, exactly one call, with the backend's own inode number
            if logs.len() != 1 || logs[0].0 != *b || logs[0].1.len() != 1 {
                let seen: Vec<(u32, Vec<(&str, u64)>)> = logs.iter().map(|(bi, l)| (w.m.backends[*bi].0.id, l.iter().map(|c| (c.method, c.inode)).collect())).collect();
                return Err((
                    format!("C07:routing:{}", kind),
                    format!("{} on inode {:#x} must reach only backend {} (slot {}) once; backends reached: {:?}; reply errno {:?}", kind, n, bs.id, slot, seen, errno),
                ));
            }
            let c = &logs[0].1[0];
            if c.method != kind {
                return Err((format!("C07:method:{}", kind), format!("backend saw {} for a {} request", c.method, kind)));
            }
            let (want_i1, want_i2) = match kind {
                "link" => match &route2 {
                    // link(inode=n, newparent=n2): header nodeid is the new parent
                    Route::Backend { ino: i2, .. } => (*ino, *i2),
                    _ => (*ino, 0),
                },
                "rename" => match &route2 {
                    Route::Backend { ino: i2, .. } => (*ino, *i2),
                    _ => (*ino, 0),
                },
                "forget" => (*ino, 1),
                _ => (*ino, 0),
            };
            if c.inode != want_i1 || (two_inode && c.inode2 != want_i2) {
                return Err((
                    format!("C07:backend-inode:{}", kind),
                    format!("{} on {:#x}: backend {} saw inode {} / {}, expected {} / {}", kind, n, bs.id, c.inode, c.inode2, want_i1, want_i2),
                ));
            }
            // ---- C14: caller ids external -> internal
            if c.uid != e2i(eff, uid) || c.gid != e2i(eff, gid) {
                return Err((
                    format!("C14:ctx-ids:{}", kind),
                    format!(
                        "{} on {:#x} (slot {}, effective mapping {:?}, given {:?}, global {:?}): caller ({}, {}) must reach the backend as ({}, {}), backend saw ({}, {})",
                        kind, n, slot, eff, w.m.slot_mapping[*slot as usize], w.m.global, uid, gid, e2i(eff, uid), e2i(eff, gid), c.uid, c.gid
                    ),
                ));
            }
            // every owner id the request sets must arrive translated (a field whose FATTR bit is unset is undefined)
            if kind == "setattr" && ((set_u && c.set_uid != e2i(eff, set_uid)) || (set_g && c.set_gid != e2i(eff, set_gid))) {
                return Err((
                    format!("C14:setattr-owner:{}", match (set_u, set_g) { (true, true) => "uid+gid", (true, false) => "uid-only", _ => "gid-only" }),
                    format!(
                        "setattr (sets uid: {}, gid: {}) owner ({}, {}) under mapping {:?} must reach the backend as ({}, {}), backend saw ({}, {})",
                        set_u, set_g, set_uid, set_gid, eff, e2i(eff, set_uid), e2i(eff, set_gid), c.set_uid, c.set_gid
                    ),
                ));
            }
            // ---- replies
            let check_owner = |what: &str, a: &vkit::client::AttrV, bino: u64| -> Result<(), Fail> {
                let (ou, og) = bs.owner(bino);
                if a.uid != i2e(eff, ou) || a.gid != i2e(eff, og) {
                    return Err((
                        format!("C14:reply-owner:{}", what),
                        format!("{}: backend owner ({}, {}) under mapping {:?} must appear as ({}, {}), reply says ({}, {})", what, ou, og, eff, i2e(eff, ou), i2e(eff, og), a.uid, a.gid),
                    ));
                }
                Ok(())
            };
            if is_entry_op(kind) {
                match entry.unwrap() {
                    Ok(ev) => {
                        let child = if kind == "link" { *ino } else { bs.child(*ino, name) };
                        // link's entry belongs to the mount of the new parent (same slot by now)
                        let want = ((*slot as u64) << 56) | child;
                        if ev.nodeid != want || ev.attr.ino != want {
                            return Err((
                                format!("C07:entry-number:{}", kind),
                                format!("{}: backend {} inode {} must be handed out as {:#x}; reply nodeid {:#x} attr.ino {:#x}", kind, bs.id, child, want, ev.nodeid, ev.attr.ino),
                            ));
                        }
                        check_owner(kind, &ev.attr, child)?;
                        w.m.handed.push(ev.nodeid);
                    }
                    Err(er) => {
                        if !(name.starts_with(b"neg") && er == libc::ENOENT) {
                            return Err((format!("C07:entry-error:{}", kind), format!("{} failed with {} although the backend succeeded", kind, er)));
                        }
                    }
                }
            }
            if let Some(a) = attr {
                match a {
                    Ok(av) => {
                        // the number the client sees for this inode is the one it used, except that the
                        // root mount answers under its own slot
                        let want = ((*slot as u64) << 56) | *ino;
                        if av.ino != want && av.ino != n {
                            return Err((format!("C07:attr-number:{}", kind), format!("{} on {:#x} returned attr.ino {:#x}", kind, n, av.ino)));
                        }
                        check_owner(kind, &av, *ino)?;
                    }
                    Err(er) => return Err((format!("C07:attr-error:{}", kind), format!("{} failed with {}", kind, er))),
                }
            }
            if let Some(d) = dirents {
                match d {
                    Ok(ents) => {
                        if ents.len() != DIR_NAMES.len() {
                            return Err((format!("C07:dir-count:{}", kind), format!("{} entries, backend offered {}", ents.len(), DIR_NAMES.len())));
                        }
                        for (e, nm) in ents.iter().zip(DIR_NAMES.iter()) {
                            let child = bs.child(*ino, nm.as_bytes());
                            let want = ((*slot as u64) << 56) | child;
                            if e.name != nm.as_bytes() || e.ino != want {
                                return Err((
                                    format!("C07:dirent-number:{}", kind),
                                    format!("{}: entry {:?} has ino {:#x}; lookup of the same name yields {:#x}", kind, String::from_utf8_lossy(&e.name), e.ino, want),
                                ));
                            }
                            if let Some(en) = &e.entry {
                                if en.nodeid != want || en.attr.ino != want {
                                    return Err((format!("C07:direntplus-number:{}", kind), format!("entry {:?}: nodeid {:#x} attr.ino {:#x}, expected {:#x}", nm, en.nodeid, en.attr.ino, want)));
                                }
                                check_owner("readdirplus", &en.attr, child)?;
                                w.m.handed.push(en.nodeid);
                            }
                        }
                    }
                    Err(er) => return Err((format!("C07:dir-error:{}", kind), format!("{} failed with {}", kind, er))),
                }
            }
            if let Some(Err(er)) = status {
                if kind != "forget" {
                    return Err((format!("C07:status-error:{}", kind), format!("{} failed with {} although the backend succeeded", kind, er)));
                }
            }
        }
    }
    Ok(())
}

pub const KINDS: &[&str] = &[
    "lookup", "lookup", "lookup", "getattr", "getattr", "setattr", "setattr", "mkdir", "mknod", "symlink", "create", "link", "readdir", "readdirplus", "readdirplus", "unlink",
    "rmdir", "rename", "open", "opendir", "release", "releasedir", "read", "write", "flush", "fsync", "fsyncdir", "fallocate", "statfs", "access", "readlink", "setxattr",
    "getxattr", "listxattr", "removexattr", "forget", "batch_forget", "lseek", "getlk", "bmap", "poll", "ioctl",
];

pub fn pick_inode(w: &World, r: &mut Rng) -> u64 {
    match r.below(10) {
        0 => 1,
        1 => {
            // a pseudo directory
            let v: Vec<u64> = w.m.pseudo.values().copied().collect();
            *r.pick(&v)
        }
        2 => {
            // fabricated number in a random slot
            (r.below(256) << 56) | r.range(1, 50)
        }
        3 => {
            // a mount root
            let v: Vec<&Mnt> = w.m.mounts.values().collect();
            if v.is_empty() {
                1
            } else {
                let m = *r.pick(&v);
                ((m.slot as u64) << 56) | w.m.backends[m.backend].0.root_ino
            }
        }
        _ => *r.pick(&w.m.handed),
    }
}

pub fn pick_name(r: &mut Rng, w: &World, n: u64) -> Vec<u8> {
    match r.below(14) {
        0 => b".".to_vec(),
        1 => b"..".to_vec(),
        2 => b"a/b".to_vec(),
        3 => b"neg1".to_vec(),
        4 | 5 => {
            // a pseudo child name if n is a pseudo dir
            if let Route::Pseudo { ino } = w.m.route(n) {
                if let Some(d) = w.m.pseudo_path(ino) {
                    let c = w.m.children(&d);
                    if !c.is_empty() {
                        return r.pick(&c).0.as_bytes().to_vec();
                    }
                }
            }
            b"a".to_vec()
        }
        6 => DIR_NAMES[r.below(DIR_NAMES.len() as u64) as usize].as_bytes().to_vec(),
        _ => format!("n{}", r.below(6)).into_bytes(),
    }
}

fn history(args: &Args, rep: &mut Report, idx: u64, prop: &str) {
    let mut r = Rng::derive(args.seed, prop, idx, 0);
    let global = if prop == "C14" || r.chance(1, 3) { *r.pick(MAPPINGS) } else { None };
    let mut opts = VfsOptions::default();
    opts.no_open = r.chance(1, 4);
    opts.no_opendir = r.chance(1, 4);
    if let Some(g) = global {
        opts.id_mapping = g;
    }
    let mut w = World::new(opts, global);
    // INIT (most histories) so that mounts afterwards are initialised too
    if r.chance(5, 6) {
        let offered = if r.chance(1, 2) { u64::MAX } else { r.next() };
        w.trace.push(format!("INIT(flags={:#x})", offered));
        if let Ok((enabled, _)) = w.conn.init(33, offered) {
            w.m.no_open = opts.no_open && enabled & kconst("FUSE_NO_OPEN_SUPPORT") != 0;
            w.m.no_opendir = opts.no_opendir && enabled & kconst("FUSE_NO_OPENDIR_SUPPORT") != 0;
        }
    }
    else {
        // never initialised: the configured switches are in force as constructed
        w.m.no_open = opts.no_open;
        w.m.no_opendir = opts.no_opendir;
    }
    let steps = r.range(20, 120);
    let mut verdict: Option<Fail> = None;
    let mut nreq = 0u64;
    'outer: for _ in 0..steps {
        let res: Result<(), Fail> = match r.below(20) {
            0..=2 => {
                let path = *r.pick(PATHS);
                let given = if prop == "C14" || r.chance(1, 3) { *r.pick(MAPPINGS) } else { None };
                let root_ino = if r.chance(1, 3) { r.range(2, 40) } else { 1 };
                rep.count(if w.m.pseudo.get(path).map(|p| w.m.mounts.contains_key(p)).unwrap_or(false) { "event:over-mount" } else { "event:mount" }, 1);
                w.mount(path, given, root_ino)
            }
            3 => {
                let path = *r.pick(PATHS);
                rep.count("event:umount", 1);
                w.umount(path)
            }
            5 if r.chance(1, 2) => {
                let path = *r.pick(PATHS);
                rep.count("event:replace-in-place", 1);
                w.replace(path)
            }
            4 if r.chance(1, 6) => {
                // burst of mount/umount cycles at one path: drives the index allocator around
                let n = r.range(100, 300);
                rep.count("event:wrap-burst", 1);
                let mut out = Ok(());
                for _ in 0..n {
                    let given = if r.chance(1, 4) { *r.pick(MAPPINGS) } else { None };
                    out = w.mount("/w", given, 1);
                    if out.is_err() {
                        break;
                    }
                    if r.chance(9, 10) {
                        out = w.umount("/w");
                        if out.is_err() {
                            break;
                        }
                    }
                }
                w.trace.push(format!("(burst of {} mount/umount cycles at /w)", n));
                out
            }
            _ => {
                let kind = *r.pick(KINDS);
                let n = pick_inode(&w, &mut r);
                let n2 = if r.chance(2, 3) { n } else { pick_inode(&w, &mut r) };
                let n2 = if matches!(kind, "link" | "rename") && r.chance(1, 2) {
                    // same mount, another inode of it
                    (n & !MASK) | r.range(1, 60)
                } else {
                    n2
                };
                let name = pick_name(&mut r, &w, n);
                nreq += 1;
                let route_cls = format!("{:?}", std::mem::discriminant(&w.m.route(n)));
                let idcls = match w.m.route(n) {
                    Route::Backend { slot, .. } => {
                        if w.m.slot_mapping[slot as usize].is_some() {
                            "per-mount"
                        } else if w.m.global.is_some() {
                            "global"
                        } else {
                            "none"
                        }
                    }
                    _ => "-",
                };
                rep.key(&format!("{}|{}|{}|{}|name{}", prop, kind, route_cls, idcls, name.len().min(4)));
                request(&mut w, &mut r, kind, n, n2, &name, rep)
            }
        };
        if let Err(f) = res {
            verdict = Some(f);
            break 'outer;
        }
        if w.trace.len() > 400 {
            let keep = w.trace.split_off(w.trace.len() - 200);
            w.trace = keep;
            w.trace.insert(0, "(earlier steps elided; the case regenerates from its seed)".into());
        }
    }
    rep.evals(nreq.max(1));
    rep.count("histories", 1);
    rep.count("requests", nreq);
    if let Some((sig, why)) = verdict {
        if sig.starts_with(prop) {
            let tail: Vec<J> = w.trace.iter().rev().take(60).rev().map(J::s).collect();
            rep.violation(&sig, idx, J::obj(vec![("why", J::s(why)), ("global_mapping", J::s(format!("{:?}", w.m.global))), ("history_tail", J::A(tail))]));
        } else {
            rep.count(&format!("other-property-observation:{}", sig.split(':').next().unwrap_or("")), 1);
        }
    } else if rep.want_sample() {
        rep.sample(J::obj(vec![("history_head", J::A(w.trace.iter().take(14).map(J::s).collect())), ("requests", J::U(nreq))]));
    }
}

fn main() {
    let args = Args::parse();
    let mut rep = Report::new(&args);
    vkit::xport::install_panic_hook();
    match args.prop.as_str() {
        "C07" | "C14" | "C06" => {
            for idx in args.indices() {
                if rep.too_many() {
                    break;
                }
                rep.begin(idx, "history");
                let p = args.prop.clone();
                history(&args, &mut rep, idx, &p);
            }
        }
        #[cfg(feature = "persist")]
        "C19" => persist::run(&args, &mut rep),
        other => {
            eprintln!("vfsx: unknown property {}", other);
            std::process::exit(2);
        }
    }
    rep.finish();
}

//! NumFs: a numbered, self-consistent backend filesystem for the VFS monitors. Inode numbers,
//! directory entries and owner ids are pure functions of (backend id, inode, name), so the number
//! for a name is the same in lookup / readdir / readdirplus and owner ids are predictable. Every
//! call is logged with the inode(s) and ids the backend actually saw.
use std::any::Any;
use std::ffi::CStr;
use std::io;
use std::sync::{Arc, Mutex};
use std::time::Duration;

use fuse_backend_rs::abi::fuse_abi::{stat64, statvfs64, CreateIn, FsOptions, OpenOptions, SetattrValid};
use fuse_backend_rs::api::filesystem::{Context, DirEntry, Entry, FileSystem, GetxattrReply, ListxattrReply, ZeroCopyReader, ZeroCopyWriter};
use fuse_backend_rs::api::BackendFileSystem;
use vkit::prng::{hash_bytes, mix};

#[derive(Clone, Debug, PartialEq)]
pub struct BCall {
    pub method: &'static str,
    pub inode: u64,
    pub inode2: u64,
    pub uid: u32,
    pub gid: u32,
    pub set_uid: u32,
    pub set_gid: u32,
    pub name: Vec<u8>,
}

pub struct Shared {
    pub id: u32,
    pub root_ino: u64,
    pub ids: Vec<u32>,
    pub log: Mutex<Vec<BCall>>,
    pub destroyed: Mutex<u32>,
}

#[derive(Clone)]
pub struct NumFs(pub Arc<Shared>);

pub const DIR_NAMES: &[&str] = &["d0", "d1", "f2", "d3", "f4", "longer-name-5"];

impl Shared {
    pub fn child(&self, parent: u64, name: &[u8]) -> u64 {
        (mix(hash_bytes(name) ^ parent.wrapping_mul(31) ^ ((self.id as u64) << 40)) % 200) + 2
    }
    pub fn owner(&self, ino: u64) -> (u32, u32) {
        let n = self.ids.len() as u64;
        let u = self.ids[((self.id as u64 * 5 + ino) % n) as usize];
        let g = self.ids[((self.id as u64 * 3 + ino * 7 + 1) % n) as usize];
        (u, g)
    }
    pub fn is_dir(&self, ino: u64) -> bool {
        ino == self.root_ino || ino % 3 != 0
    }
    pub fn attr(&self, ino: u64) -> stat64 {
        let mut st: stat64 = unsafe { std::mem::zeroed() };
        st.st_ino = ino;
        st.st_mode = if self.is_dir(ino) { libc::S_IFDIR | 0o755 } else { libc::S_IFREG | 0o644 };
        st.st_nlink = 1;
        let (u, g) = self.owner(ino);
        st.st_uid = u;
        st.st_gid = g;
        st.st_size = (ino * 3) as i64;
        st.st_blksize = 4096;
        st
    }
    pub fn entry(&self, ino: u64) -> Entry {
        Entry { inode: ino, generation: self.id as u64, attr: self.attr(ino), attr_flags: 0, attr_timeout: Duration::from_secs(1), entry_timeout: Duration::from_secs(1) }
    }
    pub fn take(&self) -> Vec<BCall> {
        std::mem::take(&mut self.log.lock().unwrap())
    }
    fn rec(&self, method: &'static str, ctx: Option<&Context>, inode: u64, inode2: u64, name: &[u8], set: (u32, u32)) {
        let (uid, gid) = ctx.map(|c| (c.uid, c.gid)).unwrap_or((u32::MAX, u32::MAX));
        self.log.lock().unwrap().push(BCall { method, inode, inode2, uid, gid, set_uid: set.0, set_gid: set.1, name: name.to_vec() });
    }
}

impl NumFs {
    pub fn new(id: u32, root_ino: u64, ids: Vec<u32>) -> NumFs {
        NumFs(Arc::new(Shared { id, root_ino, ids, log: Mutex::new(Vec::new()), destroyed: Mutex::new(0) }))
    }
    fn named(&self, m: &'static str, ctx: &Context, parent: u64, name: &CStr) -> io::Result<Entry> {
        self.0.rec(m, Some(ctx), parent, 0, name.to_bytes(), (0, 0));
        if name.to_bytes().starts_with(b"neg") {
            return Err(io::Error::from_raw_os_error(libc::ENOENT));
        }
        Ok(self.0.entry(self.0.child(parent, name.to_bytes())))
    }
}

impl BackendFileSystem for NumFs {
    fn mount(&self) -> io::Result<(Entry, u64)> {
        self.0.rec("mount", None, 0, 0, b"", (0, 0));
        Ok((self.0.entry(self.0.root_ino), 1000))
    }
    fn as_any(&self) -> &dyn Any {
        self
    }
}

impl FileSystem for NumFs {
    type Inode = u64;
    type Handle = u64;

    fn init(&self, capable: FsOptions) -> io::Result<FsOptions> {
        self.0.rec("init", None, 0, 0, &capable.bits().to_le_bytes(), (0, 0));
        Ok(capable)
    }
    fn destroy(&self) {
        *self.0.destroyed.lock().unwrap() += 1;
        self.0.rec("destroy", None, 0, 0, b"", (0, 0));
    }
    fn lookup(&self, ctx: &Context, parent: u64, name: &CStr) -> io::Result<Entry> {
        self.named("lookup", ctx, parent, name)
    }
    fn forget(&self, ctx: &Context, inode: u64, count: u64) {
        self.0.rec("forget", Some(ctx), inode, count, b"", (0, 0));
    }
    fn getattr(&self, ctx: &Context, inode: u64, _h: Option<u64>) -> io::Result<(stat64, Duration)> {
        self.0.rec("getattr", Some(ctx), inode, 0, b"", (0, 0));
        Ok((self.0.attr(inode), Duration::from_secs(1)))
    }
    fn setattr(&self, ctx: &Context, inode: u64, attr: stat64, _h: Option<u64>, _valid: SetattrValid) -> io::Result<(stat64, Duration)> {
        self.0.rec("setattr", Some(ctx), inode, 0, b"", (attr.st_uid, attr.st_gid));
        Ok((self.0.attr(inode), Duration::from_secs(1)))
    }
    fn readlink(&self, ctx: &Context, inode: u64) -> io::Result<Vec<u8>> {
        self.0.rec("readlink", Some(ctx), inode, 0, b"", (0, 0));
        Ok(b"target".to_vec())
    }
    fn symlink(&self, ctx: &Context, _linkname: &CStr, parent: u64, name: &CStr) -> io::Result<Entry> {
        self.named("symlink", ctx, parent, name)
    }
    fn mknod(&self, ctx: &Context, inode: u64, name: &CStr, _mode: u32, _rdev: u32, _umask: u32) -> io::Result<Entry> {
        self.named("mknod", ctx, inode, name)
    }
    fn mkdir(&self, ctx: &Context, parent: u64, name: &CStr, _mode: u32, _umask: u32) -> io::Result<Entry> {
        self.named("mkdir", ctx, parent, name)
    }
    fn unlink(&self, ctx: &Context, parent: u64, name: &CStr) -> io::Result<()> {
        self.0.rec("unlink", Some(ctx), parent, 0, name.to_bytes(), (0, 0));
        Ok(())
    }
    fn rmdir(&self, ctx: &Context, parent: u64, name: &CStr) -> io::Result<()> {
        self.0.rec("rmdir", Some(ctx), parent, 0, name.to_bytes(), (0, 0));
        Ok(())
    }
    fn rename(&self, ctx: &Context, olddir: u64, oldname: &CStr, newdir: u64, _newname: &CStr, _flags: u32) -> io::Result<()> {
        self.0.rec("rename", Some(ctx), olddir, newdir, oldname.to_bytes(), (0, 0));
        Ok(())
    }
    fn link(&self, ctx: &Context, inode: u64, newparent: u64, newname: &CStr) -> io::Result<Entry> {
        self.0.rec("link", Some(ctx), inode, newparent, newname.to_bytes(), (0, 0));
        Ok(self.0.entry(inode))
    }
    fn open(&self, ctx: &Context, inode: u64, _flags: u32, _ff: u32) -> io::Result<(Option<u64>, OpenOptions, Option<u32>)> {
        self.0.rec("open", Some(ctx), inode, 0, b"", (0, 0));
        Ok((Some(inode ^ 0x55), OpenOptions::empty(), None))
    }
    fn create(&self, ctx: &Context, parent: u64, name: &CStr, _args: CreateIn) -> io::Result<(Entry, Option<u64>, OpenOptions, Option<u32>)> {
        let e = self.named("create", ctx, parent, name)?;
        Ok((e, Some(e.inode ^ 0x55), OpenOptions::empty(), None))
    }
    fn read(&self, ctx: &Context, inode: u64, _h: u64, w: &mut dyn ZeroCopyWriter, size: u32, _off: u64, _lo: Option<u64>, _fl: u32) -> io::Result<usize> {
        self.0.rec("read", Some(ctx), inode, 0, b"", (0, 0));
        let n = (size as usize).min(16).min(w.available_bytes());
        w.write_all(&vec![self.0.id as u8; n])?;
        Ok(n)
    }
    fn write(&self, ctx: &Context, inode: u64, _h: u64, _r: &mut dyn ZeroCopyReader, size: u32, _off: u64, _lo: Option<u64>, _d: bool, _fl: u32, _ff: u32) -> io::Result<usize> {
        self.0.rec("write", Some(ctx), inode, 0, b"", (0, 0));
        Ok(size as usize)
    }
    fn flush(&self, ctx: &Context, inode: u64, _h: u64, _lo: u64) -> io::Result<()> {
        self.0.rec("flush", Some(ctx), inode, 0, b"", (0, 0));
        Ok(())
    }
    fn fsync(&self, ctx: &Context, inode: u64, _d: bool, _h: u64) -> io::Result<()> {
        self.0.rec("fsync", Some(ctx), inode, 0, b"", (0, 0));
        Ok(())
    }
    fn fallocate(&self, ctx: &Context, inode: u64, _h: u64, _m: u32, _o: u64, _l: u64) -> io::Result<()> {
        self.0.rec("fallocate", Some(ctx), inode, 0, b"", (0, 0));
        Ok(())
    }
    fn release(&self, ctx: &Context, inode: u64, _fl: u32, _h: u64, _f: bool, _fr: bool, _lo: Option<u64>) -> io::Result<()> {
        self.0.rec("release", Some(ctx), inode, 0, b"", (0, 0));
        Ok(())
    }
    fn statfs(&self, ctx: &Context, inode: u64) -> io::Result<statvfs64> {
        self.0.rec("statfs", Some(ctx), inode, 0, b"", (0, 0));
        let mut s: statvfs64 = unsafe { std::mem::zeroed() };
        s.f_bsize = 4096;
        s.f_namemax = 255;
        s.f_blocks = self.0.id as u64;
        Ok(s)
    }
    fn setxattr(&self, ctx: &Context, inode: u64, name: &CStr, _v: &[u8], _fl: u32) -> io::Result<()> {
        self.0.rec("setxattr", Some(ctx), inode, 0, name.to_bytes(), (0, 0));
        Ok(())
    }
    fn getxattr(&self, ctx: &Context, inode: u64, name: &CStr, _size: u32) -> io::Result<GetxattrReply> {
        self.0.rec("getxattr", Some(ctx), inode, 0, name.to_bytes(), (0, 0));
        Ok(GetxattrReply::Value(b"v".to_vec()))
    }
    fn listxattr(&self, ctx: &Context, inode: u64, _size: u32) -> io::Result<ListxattrReply> {
        self.0.rec("listxattr", Some(ctx), inode, 0, b"", (0, 0));
        Ok(ListxattrReply::Names(b"user.a\0".to_vec()))
    }
    fn removexattr(&self, ctx: &Context, inode: u64, name: &CStr) -> io::Result<()> {
        self.0.rec("removexattr", Some(ctx), inode, 0, name.to_bytes(), (0, 0));
        Ok(())
    }
    fn opendir(&self, ctx: &Context, inode: u64, _fl: u32) -> io::Result<(Option<u64>, OpenOptions)> {
        self.0.rec("opendir", Some(ctx), inode, 0, b"", (0, 0));
        Ok((Some(inode ^ 0xaa), OpenOptions::empty()))
    }
    fn readdir(&self, ctx: &Context, inode: u64, _h: u64, _size: u32, offset: u64, add_entry: &mut dyn FnMut(DirEntry) -> io::Result<usize>) -> io::Result<()> {
        self.0.rec("readdir", Some(ctx), inode, 0, b"", (0, 0));
        for (i, n) in DIR_NAMES.iter().enumerate().skip(offset as usize) {
            let c = self.0.child(inode, n.as_bytes());
            let t = if self.0.is_dir(c) { libc::DT_DIR } else { libc::DT_REG } as u32;
            if add_entry(DirEntry { ino: c, offset: i as u64 + 1, type_: t, name: n.as_bytes() })? == 0 {
                break;
            }
        }
        Ok(())
    }
    fn readdirplus(&self, ctx: &Context, inode: u64, _h: u64, _size: u32, offset: u64, add_entry: &mut dyn FnMut(DirEntry, Entry) -> io::Result<usize>) -> io::Result<()> {
        self.0.rec("readdirplus", Some(ctx), inode, 0, b"", (0, 0));
        for (i, n) in DIR_NAMES.iter().enumerate().skip(offset as usize) {
            let c = self.0.child(inode, n.as_bytes());
            let t = if self.0.is_dir(c) { libc::DT_DIR } else { libc::DT_REG } as u32;
            if add_entry(DirEntry { ino: c, offset: i as u64 + 1, type_: t, name: n.as_bytes() }, self.0.entry(c))? == 0 {
                break;
            }
        }
        Ok(())
    }
    fn fsyncdir(&self, ctx: &Context, inode: u64, _d: bool, _h: u64) -> io::Result<()> {
        self.0.rec("fsyncdir", Some(ctx), inode, 0, b"", (0, 0));
        Ok(())
    }
    fn releasedir(&self, ctx: &Context, inode: u64, _fl: u32, _h: u64) -> io::Result<()> {
        self.0.rec("releasedir", Some(ctx), inode, 0, b"", (0, 0));
        Ok(())
    }
    fn access(&self, ctx: &Context, inode: u64, _mask: u32) -> io::Result<()> {
        self.0.rec("access", Some(ctx), inode, 0, b"", (0, 0));
        Ok(())
    }
    fn lseek(&self, ctx: &Context, inode: u64, _h: u64, off: u64, _w: u32) -> io::Result<u64> {
        self.0.rec("lseek", Some(ctx), inode, 0, b"", (0, 0));
        Ok(off)
    }
}

//! C18 — a size-sealed export never lets a client change a file's size.
//! Monitor: after EVERY request all pre-existing regular files are stat'ed (size must equal the
//! initial one). Secondary differential against an unsealed twin on a twin directory.
use std::collections::BTreeMap;
use std::fs;
use std::path::Path;

use fuse_backend_rs::passthrough::CachePolicy;
use vkit::json::J;
use vkit::klayout::kconst;
use vkit::prng::Rng;
use vkit::run::{Args, Report};

use crate::env::*;

const SIZES: &[usize] = &[0, 1, 100, 4096, 5000];

fn populate(root: &Path, r: &mut Rng) -> Vec<(String, Vec<u8>)> {
    let mut files = Vec::new();
    fs::create_dir_all(root.join("sub")).unwrap();
    for (i, sz) in SIZES.iter().enumerate() {
        let name = if i % 2 == 0 { format!("f{}", i) } else { format!("sub/g{}", i) };
        let data = r.bytes(*sz);
        write_file(&root.join(&name), &data, 0o666);
        files.push((name, data));
    }
    files
}

fn sizes(root: &Path, files: &[(String, Vec<u8>)]) -> Vec<u64> {
    files.iter().map(|(n, _)| fs::metadata(root.join(n)).map(|m| m.len()).unwrap_or(u64::MAX)).collect()
}

struct Side {
    pt: Pt,
    /// name -> nodeid
    ino: BTreeMap<String, u64>,
    /// logical handle id -> (name, fh)
    fh: BTreeMap<u64, (String, u64)>,
}

fn walk(pt: &mut Pt, name: &str) -> u64 {
    let mut cur = 1u64;
    for comp in name.split('/') {
        cur = pt.conn.lookup(cur, comp.as_bytes()).map(|e| e.nodeid).unwrap_or(0);
        if cur == 0 {
            break;
        }
    }
    cur
}

pub fn run(args: &Args, rep: &mut Report) {
    let base = args.get("scratch").unwrap_or("/verif/scratch/adhoc").to_string();
    for idx in args.indices() {
        if rep.too_many() {
            break;
        }
        let mut r = Rng::derive(args.seed, "C18", idx, 0);
        rep.begin(idx, "seal-history");
        let sc = Scratch::new(&base, &format!("c18-{}-{}", args.shard, idx));
        let (da, db) = (sc.sub("sealed"), sc.sub("plain"));
        let mut cr = r.clone();
        let files = populate(&da, &mut r);
        populate(&db, &mut cr);
        let no_open = r.chance(1, 3);
        let writeback = r.chance(1, 3);
        let mk = |dir: &Path, seal: bool| {
            let mut cfg = base_config(dir);
            cfg.seal_size = seal;
            cfg.no_open = no_open;
            cfg.writeback = writeback;
            cfg.cache_policy = if no_open { CachePolicy::Always } else { CachePolicy::Auto };
            let pt = mk_pt(cfg, u64::MAX);
            Side { pt, ino: BTreeMap::new(), fh: BTreeMap::new() }
        };
        let mut s = mk(&da, true);
        let mut u = mk(&db, false);
        let no_open_eff = no_open && s.pt.enabled & kconst("FUSE_NO_OPEN_SUPPORT") != 0;
        for (n, _) in &files {
            let a = walk(&mut s.pt, n);
            let b = walk(&mut u.pt, n);
            s.ino.insert(n.clone(), a);
            u.ino.insert(n.clone(), b);
        }
        let sub_s = walk(&mut s.pt, "sub");
        let sub_u = walk(&mut u.pt, "sub");
        let init_sizes = sizes(&da, &files);
        let nreq = r.range(20, 80);
        let mut trace: Vec<String> = Vec::new();
        let mut next_h = 1u64;
        let mut verdict: Option<(String, String)> = None;
        for _ in 0..nreq {
            let fi = r.below(files.len() as u64) as usize;
            let (name, _) = &files[fi];
            let size = init_sizes[fi];
            let (is, iu) = (s.ino[name], u.ino[name]);
            let acc = *r.pick(&[libc::O_RDONLY, libc::O_WRONLY, libc::O_RDWR]);
            let mut oflags = acc;
            for f in [libc::O_TRUNC, libc::O_APPEND, libc::O_NONBLOCK, libc::O_CREAT] {
                if r.chance(1, 4) {
                    oflags |= f;
                }
            }
            // offsets / lengths around the size boundary
            let off = match r.below(6) {
                0 => 0,
                1 => size,
                2 => size.saturating_sub(1),
                3 => size + 1,
                4 => r.below(size + 10),
                _ => r.below(size.max(1)),
            };
            let len = match r.below(6) {
                0 => 0,
                1 => 1,
                2 => size.saturating_sub(off),
                3 => size.saturating_sub(off) + 1,
                _ => r.below(64),
            };
            let kind = r.below(10);
            let (desc, es, eu, equiv): (String, i32, i32, bool);
            // pick an open handle on this file, if any
            let hs: Vec<u64> = s.fh.iter().filter(|(_, (n, _))| n == name).map(|(k, _)| *k).collect();
            let hid = if hs.is_empty() { None } else { Some(*r.pick(&hs)) };
            match kind {
                0 | 1 => {
                    // OPEN (ignored under no_open: the client never sends it then)
                    if no_open_eff {
                        continue;
                    }
                    let a = s.pt.conn.open(is, oflags as u32, false);
                    let b = u.pt.conn.open(iu, oflags as u32, false);
                    desc = format!("OPEN {} flags={:#o}", name, oflags);
                    es = a.as_ref().err().copied().unwrap_or(0);
                    eu = b.as_ref().err().copied().unwrap_or(0);
                    if let (Ok((fa, _)), Ok((fb, _))) = (&a, &b) {
                        s.fh.insert(next_h, (name.clone(), *fa));
                        u.fh.insert(next_h, (name.clone(), *fb));
                        next_h += 1;
                    } else {
                        if let Ok((fa, _)) = a {
                            let _ = s.pt.conn.release(is, fa, 0, false);
                        }
                        if let Ok((fb, _)) = b {
                            let _ = u.pt.conn.release(iu, fb, 0, false);
                        }
                    }
                    equiv = oflags & libc::O_TRUNC == 0;
                }
                2 => {
                    // CREATE on an existing name (the kernel sends it on a negative dentry race) or a new one
                    let newname = r.chance(1, 3);
                    let (ps, pu, leaf) = if name.starts_with("sub/") { (sub_s, sub_u, name[4..].to_string()) } else { (1, 1, name.clone()) };
                    let leaf = if newname { format!("new{}", r.below(3)) } else { leaf };
                    let a = s.pt.conn.create(ps, leaf.as_bytes(), oflags as u32, 0o644, 0);
                    let b = u.pt.conn.create(pu, leaf.as_bytes(), oflags as u32, 0o644, 0);
                    desc = format!("CREATE {} flags={:#o}", leaf, oflags);
                    es = a.as_ref().err().copied().unwrap_or(0);
                    eu = b.as_ref().err().copied().unwrap_or(0);
                    // handles of created files are released at once (not tracked)
                    if let Ok((e, fh, _)) = a {
                        if !no_open_eff {
                            let _ = s.pt.conn.release(e.nodeid, fh, 0, false);
                        }
                    }
                    if let Ok((e, fh, _)) = b {
                        if !no_open_eff {
                            let _ = u.pt.conn.release(e.nodeid, fh, 0, false);
                        }
                    }
                    equiv = oflags & libc::O_TRUNC == 0;
                }
                3 | 4 | 5 => {
                    // WRITE; the per-request flags may switch the handle to append mode
                    let mut wflags = acc | libc::O_RDWR;
                    if r.chance(1, 3) {
                        wflags |= libc::O_APPEND;
                    }
                    let data = r.bytes(len as usize);
                    let (fa, fb) = match (hid, no_open_eff) {
                        (_, true) => (0, 0),
                        (Some(h), _) => (s.fh[&h].1, u.fh[&h].1),
                        (None, _) => continue,
                    };
                    let a = s.pt.conn.write(is, fa, off, &data, 0, wflags as u32);
                    let b = u.pt.conn.write(iu, fb, off, &data, 0, wflags as u32);
                    desc = format!("WRITE {} off={} len={} flags={:#o} (file size {})", name, off, len, wflags, size);
                    es = a.as_ref().err().copied().unwrap_or(0);
                    eu = b.as_ref().err().copied().unwrap_or(0);
                    equiv = wflags & libc::O_APPEND == 0 && off + len <= size;
                }
                6 => {
                    // SETATTR(SIZE), with or without a handle
                    let nsz = *r.pick(&[0, size, size + 1, size.saturating_sub(1), 1 << 20]);
                    let mut valid = kconst("FATTR_SIZE");
                    let mut fields: Vec<(&str, u64)> = vec![("size", nsz)];
                    let (mut fa, mut fb) = (0, 0);
                    if let (Some(h), false) = (hid, no_open_eff) {
                        if r.chance(1, 2) {
                            valid |= kconst("FATTR_FH");
                            fa = s.fh[&h].1;
                            fb = u.fh[&h].1;
                        }
                    }
                    fields.push(("fh", fa));
                    let a = s.pt.conn.setattr(is, valid, &fields);
                    fields.pop();
                    fields.push(("fh", fb));
                    let b = u.pt.conn.setattr(iu, valid, &fields);
                    desc = format!("SETATTR(SIZE={}) {} (file size {})", nsz, name, size);
                    es = a.as_ref().err().copied().unwrap_or(0);
                    eu = b.as_ref().err().copied().unwrap_or(0);
                    equiv = false;
                }
                7 => {
                    // FALLOCATE every mode incl. invalid combinations
                    let mode = *r.pick(&[0, 1, 2, 3, 0x8, 0x10, 0x11, 0x20, 0x40, 0x41, 0x3f, 0x13]);
                    let (fa, fb) = match (hid, no_open_eff) {
                        (_, true) => (0, 0),
                        (Some(h), _) => (s.fh[&h].1, u.fh[&h].1),
                        (None, _) => continue,
                    };
                    let a = s.pt.conn.fallocate(is, fa, mode, off, len.max(1));
                    let b = u.pt.conn.fallocate(iu, fb, mode, off, len.max(1));
                    desc = format!("FALLOCATE {} mode={:#x} off={} len={} (file size {})", name, mode, off, len.max(1), size);
                    es = a.as_ref().err().copied().unwrap_or(0);
                    eu = b.as_ref().err().copied().unwrap_or(0);
                    equiv = false;
                }
                8 => {
                    // READ stays within the size by definition
                    let (fa, fb) = match (hid, no_open_eff) {
                        (_, true) => (0, 0),
                        (Some(h), _) => (s.fh[&h].1, u.fh[&h].1),
                        (None, _) => continue,
                    };
                    let a = s.pt.conn.read(is, fa, off, 64, libc::O_RDWR as u32);
                    let b = u.pt.conn.read(iu, fb, off, 64, libc::O_RDWR as u32);
                    desc = format!("READ {} off={}", name, off);
                    es = a.as_ref().err().copied().unwrap_or(0);
                    eu = b.as_ref().err().copied().unwrap_or(0);
                    equiv = true;
                    if a.ok() != b.ok() && verdict.is_none() {
                        verdict = Some(("C18:within-size-differs:read-data".into(), format!("{}: sealed and unsealed instances returned different data", desc)));
                    }
                }
                _ => {
                    // RELEASE a handle
                    if let (Some(h), false) = (hid, no_open_eff) {
                        let (_, fa) = s.fh.remove(&h).unwrap();
                        let (_, fb) = u.fh.remove(&h).unwrap();
                        let _ = s.pt.conn.release(is, fa, 0, false);
                        let _ = u.pt.conn.release(iu, fb, 0, false);
                    }
                    continue;
                }
            }
            rep.eval();
            trace.push(format!("{} -> sealed errno {} / unsealed errno {}", desc, es, eu));
            let kname = desc.split(' ').next().unwrap_or("").to_string();
            rep.count(&format!("req:{}", kname), 1);
            rep.key(&format!(
                "{}|{:#o}|off{}|len{}|sealed{}|plain{}|noopen{}",
                kname,
                oflags & (libc::O_TRUNC | libc::O_APPEND | libc::O_ACCMODE),
                if off < size { "<" } else if off == size { "=" } else { ">" },
                if off + len <= size { "fits" } else { "beyond" },
                es,
                eu,
                no_open_eff
            ));
            // ---- the monitor: sizes of all pre-existing files in the sealed export
            let now = sizes(&da, &files);
            if now != init_sizes {
                let k = now.iter().zip(init_sizes.iter()).position(|(a, b)| a != b).unwrap();
                let how = if now[k] > init_sizes[k] { "grew" } else { "shrank" };
                verdict = Some((
                    format!("C18:size-changed:{}:{}", kname, how),
                    format!("after `{}` (sealed reply errno {}) file {} {} from {} to {} bytes", desc, es, files[k].0, how, init_sizes[k], now[k]),
                ));
                break;
            }
            // ---- requests that stay within the size behave as without sealing
            let unow = sizes(&db, &files);
            if equiv && unow == init_sizes {
                if es != eu {
                    verdict = Some((format!("C18:within-size-differs:{}", kname), format!("`{}` stays within the size but the sealed export answered errno {} and the unsealed one errno {}", desc, es, eu)));
                    break;
                }
                for (n, _) in &files {
                    if fs::read(da.join(n)).ok() != fs::read(db.join(n)).ok() {
                        verdict = Some((format!("C18:within-size-content:{}", kname), format!("after `{}` the content of {} differs between the sealed and the unsealed export", desc, n)));
                        break;
                    }
                }
                if verdict.is_some() {
                    break;
                }
            } else if unow != init_sizes {
                // the unsealed twin changed a size: the sealed one must have refused
                if es == 0 {
                    verdict = Some((format!("C18:size-changing-accepted:{}", kname), format!("`{}` changes a size without sealing, yet the sealed export reported success", desc)));
                    break;
                }
                rep.count("size-changing-requests-refused", 1);
                // re-align the twin: same bytes as the sealed side
                for (n, _) in &files {
                    let d = fs::read(da.join(n)).unwrap();
                    let f = fs::OpenOptions::new().write(true).open(db.join(n)).unwrap();
                    f.set_len(0).unwrap();
                    use std::os::unix::fs::FileExt;
                    f.write_all_at(&d, 0).unwrap();
                }
            } else {
                // same sizes; contents may have diverged through a refused-vs-accepted in-place op: re-align
                for (n, _) in &files {
                    let d = fs::read(da.join(n)).unwrap();
                    if fs::read(db.join(n)).ok().as_ref() != Some(&d) {
                        use std::os::unix::fs::FileExt;
                        let f = fs::OpenOptions::new().write(true).open(db.join(n)).unwrap();
                        f.write_all_at(&d, 0).unwrap();
                    }
                }
            }
            if verdict.is_some() {
                break;
            }
        }
        rep.count("histories", 1);
        if let Some((sig, why)) = verdict {
            rep.violation(
                &sig,
                idx,
                J::obj(vec![("why", J::s(why)), ("no_open", J::Bool(no_open_eff)), ("writeback", J::Bool(writeback)), ("requests", J::A(trace.iter().rev().take(25).rev().map(J::s).collect()))]),
            );
        } else if rep.want_sample() {
            rep.sample(J::obj(vec![("no_open", J::Bool(no_open_eff)), ("requests", J::A(trace.iter().take(12).map(J::s).collect()))]));
        }
    }
}

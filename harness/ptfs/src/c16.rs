//! C16 — directory listing returns each entry exactly once across any chunking / resumption.
use std::collections::BTreeMap;
use std::fs;
use std::os::unix::fs::FileTypeExt;
use std::path::Path;
use std::sync::Arc;

use fuse_backend_rs::api::filesystem::FileSystem;
use fuse_backend_rs::api::{Vfs, VfsOptions};
use fuse_backend_rs::passthrough::{Config, PassthroughFs};
use vkit::client::{decode_dirents, Conn, DirentV};
use vkit::json::J;
use vkit::klayout::{kconst, ksize};
use vkit::prng::Rng;
use vkit::run::{Args, Report};

use crate::env::*;

type Fail = (String, String);

fn host_listing(dir: &Path) -> BTreeMap<Vec<u8>, u32> {
    use std::os::unix::ffi::OsStrExt;
    let mut m = BTreeMap::new();
    for e in fs::read_dir(dir).unwrap().filter_map(|e| e.ok()) {
        let ft = e.file_type().unwrap();
        let t = if ft.is_dir() {
            libc::DT_DIR
        } else if ft.is_symlink() {
            libc::DT_LNK
        } else if ft.is_file() {
            libc::DT_REG
        } else if ft.is_fifo() {
            libc::DT_FIFO
        } else if ft.is_char_device() {
            libc::DT_CHR
        } else if ft.is_block_device() {
            libc::DT_BLK
        } else {
            libc::DT_SOCK
        };
        m.insert(e.file_name().as_bytes().to_vec(), t as u32);
    }
    m
}

fn entry_size(namelen: usize, plus: bool) -> usize {
    ((ksize("fuse_dirent") + namelen + 7) & !7) + if plus { ksize("fuse_entry_out") } else { 0 }
}

fn make_dir(dir: &Path, r: &mut Rng, n: usize) {
    fs::create_dir_all(dir).unwrap();
    // names that merely begin with dots ("..data", "...", ".x") are ordinary entries; some directories hold
    // a few of them, some nothing else (a getdents batch may then consist of dot-prefixed names only)
    let dotty = match r.below(6) {
        0 => 2,
        1 => 1,
        _ => 0,
    };
    for i in 0..n {
        if dotty > 0 && (dotty == 2 || r.chance(1, 2)) {
            let name = match (i, r.below(3)) {
                (0, _) => "...".to_string(),
                (1, _) => "..data".to_string(),
                (_, 0) => format!(".{:x}-", i),
                (_, 1) => format!("..{:x}-{}", i, "y".repeat(r.below(20) as usize)),
                _ => format!("...{:x}-", i),
            };
            fs::write(dir.join(&name), b"").unwrap();
            continue;
        }
        let len = match r.below(10) {
            0 => 255,
            1 => 1 + (i % 8),
            2 => r.range(100, 254) as usize,
            _ => r.range(1, 24) as usize,
        };
        // unique, printable, no '/'
        let mut name = format!("{:x}-", i);
        let minlen = name.len() - if len < name.len() { 1 } else { 0 };
        while name.len() < len {
            name.push((b'a' + (r.below(26) as u8)) as char);
        }
        // "<hex>-" is unique; without room for the dash "<hex>" alone is unique too ('-' never follows)
        name.truncate(len.max(minlen).min(255));
        let p = dir.join(&name);
        match r.below(8) {
            0 => fs::create_dir(&p).unwrap(),
            1 => std::os::unix::fs::symlink("x", &p).unwrap(),
            2 => {
                let c = std::ffi::CString::new(p.to_str().unwrap()).unwrap();
                unsafe { libc::mkfifo(c.as_ptr(), 0o644) };
            }
            _ => fs::write(&p, b"").unwrap(),
        }
    }
}

struct Target<'a, F: FileSystem + Sync> {
    conn: &'a mut Conn<F>,
    ino: u64,
    /// opendir is in force (handles) or handle-less listing
    use_handles: bool,
    what: &'static str,
}

impl<F: FileSystem + Sync> Target<'_, F> {
    fn open(&mut self) -> Result<u64, i32> {
        if self.use_handles {
            self.conn.open(self.ino, 0, true).map(|x| x.0)
        } else {
            Ok(0)
        }
    }
    fn close(&mut self, fh: u64) {
        if self.use_handles {
            let _ = self.conn.release(self.ino, fh, 0, true);
        }
    }
    /// one request; checks the reply-level rules
    fn chunk(&mut self, fh: u64, off: u64, size: u32, plus: bool) -> Result<Vec<DirentV>, Fail> {
        let raw = self.conn.readdir_raw(self.ino, fh, off, size, plus).map_err(|e| (format!("C16:{}:error", self.what), format!("readdir at offset {} size {} failed with errno {}", off, size, e)))?;
        if raw.len() > size as usize {
            return Err((format!("C16:{}:reply-exceeds-size", self.what), format!("reply payload of {} bytes for a requested size of {}", raw.len(), size)));
        }
        let v = decode_dirents(&raw, plus).map_err(|e| (format!("C16:{}:partial-entry", self.what), format!("reply (offset {}, size {}) is not made of whole entries: {}", off, size, e)))?;
        for d in &v {
            if d.off == 0 {
                return Err((format!("C16:{}:zero-offset", self.what), format!("entry {:?} carries continuation offset 0", String::from_utf8_lossy(&d.name))));
            }
            if d.name == b"." || d.name == b".." {
                return Err((format!("C16:{}:dot-entry", self.what), format!("listing contains {:?}", String::from_utf8_lossy(&d.name))));
            }
        }
        Ok(v)
    }
    /// follow the offset chain from `start` until an empty reply; sizes drawn per request
    fn enumerate(&mut self, fh: u64, start: u64, sizes: &mut dyn FnMut() -> u32, plus: bool, limit: usize) -> Result<Vec<DirentV>, Fail> {
        let mut out: Vec<DirentV> = Vec::new();
        let mut off = start;
        for _ in 0..limit {
            let v = self.chunk(fh, off, sizes(), plus)?;
            if v.is_empty() {
                return Ok(out);
            }
            off = v.last().unwrap().off;
            out.extend(v);
        }
        Err((format!("C16:{}:no-termination", self.what), format!("listing did not end with an empty reply after {} requests", limit)))
    }
}

fn names(v: &[DirentV]) -> Vec<String> {
    v.iter().map(|d| String::from_utf8_lossy(&d.name).to_string()).collect()
}

fn check_dir<F: FileSystem + Sync>(t: &mut Target<F>, host: Option<&BTreeMap<Vec<u8>, u32>>, expect_names: Option<Vec<Vec<u8>>>, r: &mut Rng, rep: &mut Report, trace: &mut Vec<String>) -> Result<(), Fail> {
    let maxname = host.map(|h| h.keys().map(|k| k.len()).max().unwrap_or(1)).or(expect_names.as_ref().map(|e| e.iter().map(|k| k.len()).max().unwrap_or(1))).unwrap_or(1);
    let nent = host.map(|h| h.len()).or(expect_names.as_ref().map(|e| e.len())).unwrap_or(0);
    for plus in [false, true] {
        let min = entry_size(maxname, plus) as u32;
        // reference enumeration with a large buffer
        let fh = t.open().map_err(|e| (format!("C16:{}:opendir", t.what), format!("opendir failed: {}", e)))?;
        let full = t.enumerate(fh, 0, &mut || 65536, plus, nent + 10)?;
        trace.push(format!("{} plus={} full listing: {} entries", t.what, plus, full.len()));
        // content: every entry exactly once, right type
        let mut seen: BTreeMap<Vec<u8>, u32> = BTreeMap::new();
        for d in &full {
            if seen.insert(d.name.clone(), d.typ).is_some() {
                return Err((format!("C16:{}:duplicate", t.what), format!("entry {:?} listed twice", String::from_utf8_lossy(&d.name))));
            }
        }
        if let Some(h) = host {
            for (n, ty) in h {
                match seen.get(n) {
                    None => return Err((format!("C16:{}:missing", t.what), format!("entry {:?} of the directory ({} entries) is not listed ({} listed)", String::from_utf8_lossy(n), h.len(), full.len()))),
                    Some(t2) if t2 != ty => return Err((format!("C16:{}:type", t.what), format!("entry {:?} listed with type {} but the host says {}", String::from_utf8_lossy(n), t2, ty))),
                    _ => {}
                }
            }
            if let Some(extra) = seen.keys().find(|k| !h.contains_key(*k)) {
                return Err((format!("C16:{}:phantom", t.what), format!("listing contains {:?} which is not in the directory", String::from_utf8_lossy(extra))));
            }
        }
        if let Some(en) = &expect_names {
            let mut a: Vec<Vec<u8>> = seen.keys().cloned().collect();
            let mut b = en.clone();
            a.sort();
            b.sort();
            if a != b {
                return Err((format!("C16:{}:names", t.what), format!("listed {:?}, expected {:?}", names(&full), b.iter().map(|x| String::from_utf8_lossy(x).to_string()).collect::<Vec<_>>())));
            }
        }
        rep.count("entries_listed_and_matched", full.len() as u64);
        // chunked enumerations with small and varying sizes must reproduce the same sequence
        for round in 0..3 {
            let mode = r.below(4);
            let fixed = match mode {
                0 => min,
                1 => min + r.below(64) as u32,
                2 => min * 2 + 7,
                _ => 4096,
            };
            let mut rr = r.clone();
            let mut sizes = move || if mode == 1 { min + rr.below(600) as u32 } else { fixed };
            let fh2 = if round == 1 { t.open().unwrap_or(fh) } else { fh };
            let got = t.enumerate(fh2, 0, &mut sizes, plus, nent * 2 + 10)?;
            trace.push(format!("{} plus={} chunked (mode {}, size~{}): {} entries", t.what, plus, mode, fixed, got.len()));
            rep.key(&format!("{}|plus{}|n{}|mode{}|min{}", t.what, plus, nent.min(200) / 10, mode, min / 64));
            if names(&got) != names(&full) {
                let k = got.iter().zip(full.iter()).position(|(a, b)| a.name != b.name).unwrap_or(got.len().min(full.len()));
                return Err((
                    format!("C16:{}:chunked-differs", t.what),
                    format!(
                        "listing with request size {} (smallest size that holds any entry: {}) returned {} entries, the reference enumeration {}; first difference at position {} ({:?} vs {:?})",
                        fixed, min, got.len(), full.len(), k, got.get(k).map(|d| String::from_utf8_lossy(&d.name).to_string()), full.get(k).map(|d| String::from_utf8_lossy(&d.name).to_string())
                    ),
                ));
            }
            if fh2 != fh {
                t.close(fh2);
            }
        }
        // resumption from the offset of the k-th entry: sequentially, after going back, on another handle
        if !full.is_empty() {
            for _ in 0..4 {
                let k = r.below(full.len() as u64) as usize;
                let other = r.chance(1, 3);
                let fh3 = if other { t.open().unwrap_or(fh) } else { fh };
                let size = *r.pick(&[min, min + 40, 1024, 65536]);
                let v = t.chunk(fh3, full[k].off, size, plus)?;
                let want: Vec<String> = names(&full[k + 1..]).into_iter().take(v.len()).collect();
                if names(&v) != want || (v.is_empty() && k + 1 < full.len()) {
                    return Err((
                        format!("C16:{}:resume", t.what),
                        format!(
                            "resuming after entry {} ({:?}, offset {}) with size {} on {} handle returned {:?}; the enumeration continues with {:?}",
                            k, String::from_utf8_lossy(&full[k].name), full[k].off, size, if other { "another" } else { "the same" }, names(&v), names(&full[k + 1..]).into_iter().take(3).collect::<Vec<_>>()
                        ),
                    ));
                }
                rep.count("resumptions_checked", 1);
                if fh3 != fh {
                    t.close(fh3);
                }
            }
        }
        t.close(fh);
    }
    Ok(())
}

pub fn run(args: &Args, rep: &mut Report) {
    let base = args.get("scratch").unwrap_or("/verif/scratch/adhoc").to_string();
    for idx in args.indices() {
        if rep.too_many() {
            break;
        }
        let mut r = Rng::derive(args.seed, "C16", idx, 0);
        rep.begin(idx, "listing");
        let sc = Scratch::new(&base, &format!("c16-{}-{}", args.shard, idx));
        let dir = sc.sub("export");
        let n = *r.pick(&[0usize, 1, 2, 3, 3, 10, 10, 40, 100, if idx % 50 == 0 { 3000 } else { 200 }]);
        make_dir(&dir.join("d"), &mut r, n);
        let host = host_listing(&dir.join("d"));
        let mut trace: Vec<String> = vec![format!("directory with {} entries", n)];
        let kind = idx % 3;
        let no_opendir = r.chance(1, 3);
        let res: Result<(), Fail> = (|| {
            match kind {
                0 => {
                    // standalone passthrough
                    let mut cfg = base_config(&dir);
                    cfg.no_opendir = no_opendir;
                    cfg.inode_file_handles = r.chance(1, 2);
                    let mut pt = mk_pt(cfg, u64::MAX);
                    let use_handles = pt.enabled & kconst("FUSE_NO_OPENDIR_SUPPORT") == 0;
                    let d = pt.conn.lookup(1, b"d").map_err(|e| ("harness:lookup".to_string(), format!("{}", e)))?.nodeid;
                    let fs2 = pt.fs.clone();
                    let mut t = Target { conn: &mut pt.conn, ino: d, use_handles, what: if use_handles { "passthrough" } else { "passthrough-noopendir" } };
                    check_dir(&mut t, Some(&host), None, &mut r, rep, &mut trace)?;
                    // READDIRPLUS takes a reference for exactly the delivered entries
                    let fh = t.open().unwrap_or(0);
                    let big = t.chunk(fh, 0, 1 << 20, true)?;
                    t.close(fh);
                    let snap: BTreeMap<u64, u64> = big.iter().filter_map(|d| d.entry.as_ref()).map(|e| (e.nodeid, fs2.verif_refcount(e.nodeid).unwrap_or(0))).collect();
                    let size = *r.pick(&[400u32, 700, 4096]);
                    let fh = t.open().unwrap_or(0);
                    let v2 = t.chunk(fh, 0, size.max(entry_size(255, true) as u32), true)?;
                    t.close(fh);
                    let delivered: Vec<u64> = v2.iter().filter_map(|d| d.entry.as_ref()).map(|e| e.nodeid).collect();
                    for (n, was) in &snap {
                        let now = fs2.verif_refcount(*n).unwrap_or(0);
                        let want = was + delivered.iter().filter(|x| *x == n).count() as u64;
                        if now != want {
                            return Err((
                                if delivered.contains(n) { "C16:readdirplus-refs:delivered".to_string() } else { "C16:readdirplus-refs:undelivered".to_string() },
                                format!("READDIRPLUS (size {}) delivered {} of {} entries; inode {:#x} was {}delivered but its reference count went from {} to {}", size, delivered.len(), big.len(), n, if delivered.contains(n) { "" } else { "not " }, was, now),
                            ));
                        }
                    }
                    rep.count("readdirplus_reference_checks", snap.len() as u64);
                    Ok(())
                }
                1 => {
                    // VFS-wrapped passthrough mounted at /m
                    let mut opts = VfsOptions::default();
                    opts.no_opendir = no_opendir;
                    let vfs = Arc::new(Vfs::new(opts));
                    let cfg = Config { root_dir: dir.to_str().unwrap().to_string(), do_import: false, ..Default::default() };
                    let pfs = PassthroughFs::<()>::new(cfg).map_err(|e| ("harness:new".to_string(), format!("{:?}", e)))?;
                    pfs.import().map_err(|e| ("harness:import".to_string(), format!("{:?}", e)))?;
                    let mut conn = Conn::new(vfs.clone());
                    let enabled = conn.init(33, u64::MAX).map(|x| x.0).unwrap_or(0);
                    vfs.mount(Box::new(pfs), "/m").map_err(|e| ("harness:mount".to_string(), format!("{:?}", e)))?;
                    let use_handles = enabled & kconst("FUSE_NO_OPENDIR_SUPPORT") == 0;
                    let m = conn.lookup(1, b"m").map_err(|e| ("harness:lookup".to_string(), format!("{}", e)))?.nodeid;
                    let d = conn.lookup(m, b"d").map_err(|e| ("harness:lookup".to_string(), format!("{}", e)))?.nodeid;
                    let mut t = Target { conn: &mut conn, ino: d, use_handles, what: if use_handles { "vfs-passthrough" } else { "vfs-passthrough-noopendir" } };
                    check_dir(&mut t, Some(&host), None, &mut r, rep, &mut trace)
                }
                _ => {
                    // pseudo directory with many mount points
                    let mut opts = VfsOptions::default();
                    opts.no_opendir = false;
                    let vfs = Arc::new(Vfs::new(opts));
                    let mut conn = Conn::new(vfs.clone());
                    let _ = conn.init(33, u64::MAX);
                    let k = *r.pick(&[0usize, 1, 2, 3, 10, 40]);
                    let mut expect = Vec::new();
                    for i in 0..k {
                        let nm = format!("mp{}{}", i, "x".repeat(r.below(40) as usize));
                        let cfg = Config { root_dir: dir.to_str().unwrap().to_string(), do_import: false, ..Default::default() };
                        let pfs = PassthroughFs::<()>::new(cfg).map_err(|e| ("harness:new".to_string(), format!("{:?}", e)))?;
                        pfs.import().map_err(|e| ("harness:import".to_string(), format!("{:?}", e)))?;
                        vfs.mount(Box::new(pfs), &format!("/p/{}", nm)).map_err(|e| ("harness:mount".to_string(), format!("{:?}", e)))?;
                        expect.push(nm.into_bytes());
                    }
                    if k == 0 {
                        // an empty pseudo directory: create the path by mounting below and unmounting
                        let cfg = Config { root_dir: dir.to_str().unwrap().to_string(), do_import: false, ..Default::default() };
                        let pfs = PassthroughFs::<()>::new(cfg).map_err(|e| ("harness:new".to_string(), format!("{:?}", e)))?;
                        pfs.import().map_err(|e| ("harness:import".to_string(), format!("{:?}", e)))?;
                        vfs.mount(Box::new(pfs), "/p").map_err(|e| ("harness:mount".to_string(), format!("{:?}", e)))?;
                        let _ = vfs.umount("/p");
                    }
                    let p = conn.lookup(1, b"p").map_err(|e| ("harness:lookup".to_string(), format!("{}", e)))?.nodeid;
                    trace.push(format!("pseudo directory /p with {} mount points", k));
                    // pseudo directories need no handle
                    let mut t = Target { conn: &mut conn, ino: p, use_handles: false, what: "pseudo" };
                    check_dir(&mut t, None, Some(expect), &mut r, rep, &mut trace)
                }
            }
        })();
        rep.eval();
        rep.count(&format!("kind:{}", ["passthrough", "vfs-passthrough", "pseudo"][kind as usize]), 1);
        match res {
            Err((sig, why)) if sig.starts_with("harness:") => rep.inconclusive(&sig, J::s(why)),
            Err((sig, why)) => rep.violation(&sig, idx, J::obj(vec![("why", J::s(why)), ("entries", J::U(n as u64)), ("no_opendir_configured", J::Bool(no_opendir)), ("trace", J::A(trace.iter().map(J::s).collect()))])),
            Ok(()) => {
                if rep.want_sample() {
                    rep.sample(J::obj(vec![("trace", J::A(trace.iter().take(10).map(J::s).collect()))]));
                }
            }
        }
    }
}

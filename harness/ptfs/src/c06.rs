//! C06 — nothing outside the exported directory is reachable; names are single components.
//! Sentinel tree around the export root (snapshot incl. ctime before/after every request), reply
//! attributes checked against the sentinel inode set, data replies against a secret token,
//! adversarial names on every name-taking operation, standalone and VFS-fronted.
use std::collections::{BTreeMap, BTreeSet};
use std::fs;
use std::path::Path;
use std::sync::Arc;

use fuse_backend_rs::api::filesystem::FileSystem;
use fuse_backend_rs::api::{Vfs, VfsOptions};
use fuse_backend_rs::passthrough::{Config, PassthroughFs};
use vkit::client::Conn;
use vkit::gen::Body;
use vkit::json::J;
use vkit::klayout::kconst;
use vkit::prng::Rng;
use vkit::run::{Args, Report};

use crate::env::*;

type Fail = (String, String);

const BAD: &[&[u8]] = &[b".", b"..", b"a/b", b"/abs", b"../x", b"x/", b"./x", b"../secret.txt", b"d/../../secret.txt", b"/etc/passwd"];
const GOOD: &[&[u8]] = &[b"f0", b"f1", b"d", b"d2", b"abs", b"rel", b"reldir", b"rootlink", b"selflink", b"up", b"n0", b"n1", b"n2", b"inner"];

fn setup(outer: &Path, token: &str) {
    let ex = outer.join("export");
    fs::create_dir_all(ex.join("d/inner")).unwrap();
    fs::create_dir_all(ex.join("d2")).unwrap();
    fs::create_dir_all(outer.join("sibling/deep")).unwrap();
    write_file(&outer.join("secret.txt"), token.as_bytes(), 0o644);
    write_file(&outer.join("sibling/s0"), format!("sibling {}", token).as_bytes(), 0o666);
    write_file(&outer.join("sibling/deep/s1"), token.as_bytes(), 0o666);
    write_file(&ex.join("f0"), b"inside-0", 0o644);
    write_file(&ex.join("f1"), b"inside-1", 0o644);
    write_file(&ex.join("d/inner/g"), b"inside-g", 0o644);
    let sl = |t: &str, p: &str| std::os::unix::fs::symlink(t, ex.join(p)).unwrap();
    sl(outer.join("secret.txt").to_str().unwrap(), "abs");
    sl("../secret.txt", "rel");
    sl("../sibling", "reldir");
    sl("/", "rootlink");
    sl(".", "selflink");
    sl("../../sibling", "d/up");
}

/// A second thread of the serving process that keeps opening and closing a file *outside* the export, as
/// any multi-threaded server opens descriptors all the time. If the filesystem ever names an object through a
/// descriptor number it has already closed (`/proc/self/fd/N`), the number is likely to belong to this file.
struct Churner {
    stop: Arc<std::sync::atomic::AtomicBool>,
    th: Option<std::thread::JoinHandle<u64>>,
}

impl Churner {
    fn start(outer: &Path, token: &str) -> Churner {
        let target = outer.join("churn-target");
        write_file(&target, token.as_bytes(), 0o666);
        let c = std::ffi::CString::new(target.to_str().unwrap()).unwrap();
        let n = std::ffi::CString::new("user.c06secret").unwrap();
        let rc = unsafe { libc::setxattr(c.as_ptr(), n.as_ptr(), token.as_ptr() as *const _, token.len(), 0) };
        assert_eq!(rc, 0, "setxattr on the churn target");
        let stop = Arc::new(std::sync::atomic::AtomicBool::new(false));
        let s2 = stop.clone();
        let th = std::thread::spawn(move || {
            let mut n = 0u64;
            while !s2.load(std::sync::atomic::Ordering::Relaxed) {
                let fd = unsafe { libc::open(c.as_ptr(), libc::O_RDONLY | libc::O_CLOEXEC) };
                if fd >= 0 {
                    std::hint::spin_loop();
                    unsafe { libc::close(fd) };
                }
                n += 1;
            }
            n
        });
        Churner { stop, th: Some(th) }
    }
    fn finish(&mut self) -> u64 {
        self.stop.store(true, std::sync::atomic::Ordering::Relaxed);
        self.th.take().map(|t| t.join().unwrap_or(0)).unwrap_or(0)
    }
}

impl Drop for Churner {
    fn drop(&mut self) {
        self.finish();
    }
}

/// everything under `outer` except the export subtree
fn sentinel(outer: &Path) -> BTreeMap<String, Node> {
    let mut s = snapshot(outer);
    s.retain(|k, _| k != "export" && !k.starts_with("export/"));
    // taking the snapshot reads the files: access times are the monitor's own footprint
    for n in s.values_mut() {
        n.atime = (0, 0);
    }
    // the outer directory's own mtime changes when export's siblings change: keep it
    s
}

struct World<F: FileSystem + Sync> {
    conn: Conn<F>,
    known: Vec<u64>,
    dirs: Vec<u64>,
    root: u64,
    /// second number of the same root object (a filesystem mounted at / answers under its own slot)
    root_alias: u64,
    front: &'static str,
    trace: Vec<String>,
}

fn check_attr(w: &str, ino: u64, mode: u32, forbidden: &BTreeSet<u64>, what: &str) -> Result<(), Fail> {
    if forbidden.contains(&ino) {
        return Err((format!("C06:{}:outside-attributes:{}", w, what), format!("{} returned attributes of host inode {} (mode {:#o}), which lies outside the export", what, ino, mode)));
    }
    Ok(())
}

fn step<F: FileSystem + Sync>(w: &mut World<F>, r: &mut Rng, forbidden: &BTreeSet<u64>, token: &str, host_ino_of_vfs: bool, rep: &mut Report) -> Result<(bool, Option<i32>, &'static str), Fail> {
    let _ = host_ino_of_vfs;
    let bad = r.chance(2, 5);
    let name: Vec<u8> = if bad { r.pick(BAD).to_vec() } else { r.pick(GOOD).to_vec() };
    let parent = *r.pick(&w.dirs);
    let ino = *r.pick(&w.known);
    let op = r.below(18);
    let front = w.front;
    let mut errno: Option<i32> = None;
    let mut note_entry = |w: &mut World<F>, e: &vkit::client::EntryV, what: &str| -> Result<(), Fail> {
        if e.nodeid == 0 {
            return Ok(());
        }
        // with the VFS in front attr.ino is the VFS inode number; the passthrough's own answer is
        // still checked through GETATTR-independent fields below
        if !front.starts_with("vfs") {
            check_attr(front, e.attr.ino, e.attr.mode, forbidden, what)?;
        }
        if !w.known.contains(&e.nodeid) {
            w.known.push(e.nodeid);
        }
        if e.attr.mode & libc::S_IFMT == libc::S_IFDIR && !w.dirs.contains(&e.nodeid) {
            w.dirs.push(e.nodeid);
        }
        Ok(())
    };
    let opname: &'static str;
    match op {
        0..=3 => {
            opname = "lookup";
            let res = w.conn.lookup(parent, &name);
            w.trace.push(format!("lookup({:#x}, {:?}) -> {:?}", parent, String::from_utf8_lossy(&name), res.as_ref().map(|e| (e.nodeid, e.attr.mode))));
            match res {
                Ok(e) => {
                    if parent == w.root && name == b".." && e.nodeid != w.root && e.nodeid != w.root_alias {
                        return Err((format!("C06:{}:dotdot-at-root", front), format!("lookup(root, \"..\") returned {:#x} instead of the root {:#x}", e.nodeid, w.root)));
                    }
                    // a symlink is reported as a symlink, never as its target
                    note_entry(w, &e, "LOOKUP")?;
                }
                Err(e) => errno = Some(e),
            }
        }
        4 => {
            opname = "create";
            let fl = *r.pick(&[libc::O_RDWR, libc::O_WRONLY | libc::O_TRUNC, libc::O_RDWR | libc::O_EXCL, libc::O_RDONLY]);
            let res = w.conn.create(parent, &name, fl as u32, 0o666, 0);
            w.trace.push(format!("create({:#x}, {:?}, {:#o}) -> {:?}", parent, String::from_utf8_lossy(&name), fl, res.as_ref().map(|e| e.0.nodeid)));
            match res {
                Ok((e, fh, _)) => {
                    note_entry(w, &e, "CREATE")?;
                    let _ = w.conn.write(e.nodeid, fh, 0, b"written-through-create", 0, libc::O_RDWR as u32);
                    let _ = w.conn.release(e.nodeid, fh, 0, false);
                }
                Err(e) => errno = Some(e),
            }
        }
        5 => {
            opname = "mkdir";
            match w.conn.mkdir(parent, &name, 0o777, 0) {
                Ok(e) => note_entry(w, &e, "MKDIR")?,
                Err(e) => errno = Some(e),
            }
            w.trace.push(format!("mkdir({:#x}, {:?}) -> {:?}", parent, String::from_utf8_lossy(&name), errno));
        }
        6 => {
            opname = "mknod";
            match w.conn.mknod(parent, &name, libc::S_IFREG | 0o666, 0, 0) {
                Ok(e) => note_entry(w, &e, "MKNOD")?,
                Err(e) => errno = Some(e),
            }
            w.trace.push(format!("mknod({:#x}, {:?}) -> {:?}", parent, String::from_utf8_lossy(&name), errno));
        }
        7 => {
            opname = "symlink";
            let targets: [&[u8]; 5] = [b"../secret.txt", b"/", b"../sibling", b"f0", b"../../../../../../etc"];
            let t = *r.pick(&targets);
            match w.conn.symlink(parent, &name, t) {
                Ok(e) => note_entry(w, &e, "SYMLINK")?,
                Err(e) => errno = Some(e),
            }
            w.trace.push(format!("symlink({:#x}, {:?} -> {:?}) -> {:?}", parent, String::from_utf8_lossy(&name), String::from_utf8_lossy(t), errno));
        }
        8 => {
            opname = "link";
            match w.conn.link(ino, parent, &name) {
                Ok(e) => note_entry(w, &e, "LINK")?,
                Err(e) => errno = Some(e),
            }
            w.trace.push(format!("link({:#x} -> {:#x}/{:?}) -> {:?}", ino, parent, String::from_utf8_lossy(&name), errno));
        }
        9 => {
            opname = "unlink";
            errno = w.conn.unlink(parent, &name).err();
            w.trace.push(format!("unlink({:#x}, {:?}) -> {:?}", parent, String::from_utf8_lossy(&name), errno));
        }
        10 => {
            opname = "rmdir";
            errno = w.conn.rmdir(parent, &name).err();
            w.trace.push(format!("rmdir({:#x}, {:?}) -> {:?}", parent, String::from_utf8_lossy(&name), errno));
        }
        11 | 12 => {
            opname = "rename";
            // the bad name may be the source or the destination
            let other: Vec<u8> = if r.chance(1, 2) { r.pick(GOOD).to_vec() } else { r.pick(BAD).to_vec() };
            let (a, b) = if r.chance(1, 2) { (name.clone(), other) } else { (other, name.clone()) };
            let np = *r.pick(&w.dirs);
            let fl = if r.chance(1, 2) { Some(*r.pick(&[0u32, 1, 2])) } else { None };
            errno = w.conn.rename(parent, &a, np, &b, fl).err();
            w.trace.push(format!("rename({:#x}/{:?} -> {:#x}/{:?}, {:?}) -> {:?}", parent, String::from_utf8_lossy(&a), np, String::from_utf8_lossy(&b), fl, errno));
            let any_bad = |n: &[u8]| n == b"." || n == b".." || n.contains(&b'/');
            // report against the worse of the two names
            if any_bad(&a) || any_bad(&b) {
                if errno != Some(libc::EINVAL) {
                    return Err((format!("C06:{}:bad-name-accepted:rename", front), format!("rename with names {:?} / {:?} answered {:?} instead of EINVAL", String::from_utf8_lossy(&a), String::from_utf8_lossy(&b), errno)));
                }
                return Ok((true, errno, opname));
            }
            return Ok((false, errno, opname));
        }
        13 => {
            // operate on an inode (possibly a symlink pointing outside): open/read/write must not follow
            opname = "open-rw";
            match w.conn.open(ino, *r.pick(&[libc::O_RDONLY, libc::O_RDWR, libc::O_WRONLY | libc::O_TRUNC]) as u32, false) {
                Ok((fh, _)) => {
                    if let Ok(d) = w.conn.read(ino, fh, 0, 4096, libc::O_RDONLY as u32) {
                        if String::from_utf8_lossy(&d).contains(token) {
                            return Err((format!("C06:{}:outside-data:read", front), format!("READ on inode {:#x} returned the content of a file outside the export", ino)));
                        }
                    }
                    let _ = w.conn.write(ino, fh, 0, b"overwrite", 0, libc::O_RDWR as u32);
                    let _ = w.conn.release(ino, fh, 0, false);
                }
                Err(e) => errno = Some(e),
            }
            w.trace.push(format!("open+read+write({:#x}) -> {:?}", ino, errno));
            return Ok((false, errno, opname));
        }
        14 => {
            opname = "setattr";
            let valid = *r.pick(&[kconst("FATTR_MODE"), kconst("FATTR_SIZE"), kconst("FATTR_UID") | kconst("FATTR_GID"), kconst("FATTR_MTIME")]);
            let res = w.conn.setattr(ino, valid, &[("mode", 0o600), ("size", 3), ("uid", 12), ("gid", 12), ("mtime", 1000)]);
            match &res {
                Ok(a) => {
                    if !front.starts_with("vfs") {
                        check_attr(front, a.ino, a.mode, forbidden, "SETATTR")?;
                    }
                }
                Err(e) => errno = Some(*e),
            }
            w.trace.push(format!("setattr({:#x}, valid={:#x}) -> {:?}", ino, valid, errno));
            return Ok((false, errno, opname));
        }
        15 => {
            opname = "xattr";
            let a = w.conn.setxattr(ino, b"user.c06", b"v", 0).err();
            let b = w.conn.getxattr(ino, b"user.c06", 64).err();
            // an attribute only the churned file outside the export carries (see `Churner`)
            let secret = w.conn.getxattr(ino, b"user.c06secret", 64);
            let c = if r.chance(3, 4) { w.conn.removexattr(ino, b"user.c06").err() } else { None };
            w.trace.push(format!("xattr set/get/remove({:#x}) -> {:?} {:?} {:?}", ino, a, b, c));
            if let Ok(Ok(v)) = &secret {
                return Err((format!("C06:{}:outside-data:xattr", front), format!("GETXATTR on inode {:#x} returned an attribute value ({:?}) that only a file outside the export carries", ino, String::from_utf8_lossy(v))));
            }
            return Ok((false, a, opname));
        }
        16 => {
            opname = "getattr-readlink";
            match w.conn.getattr(ino, None) {
                Ok(a) => {
                    if !front.starts_with("vfs") {
                        check_attr(front, a.ino, a.mode, forbidden, "GETATTR")?;
                    }
                }
                Err(e) => errno = Some(e),
            }
            let _ = w.conn.readlink(ino);
            return Ok((false, errno, opname));
        }
        _ => {
            // trailing garbage after the NUL of a bad name
            opname = "raw-mkdir-nul-junk";
            let mut b = Body::new();
            let s = b.st("fuse_mkdir_in");
            b.set(s, "fuse_mkdir_in", "mode", 0o777);
            b.cstr(b"..");
            b.cstr(b"junk");
            let rp = w.conn.raw(kconst("FUSE_MKDIR") as u32, parent, &b.b);
            errno = if rp.errno == 0 { None } else { Some(rp.errno) };
            w.trace.push(format!("raw MKDIR({:#x}, \"..\\0junk\\0\") -> {:?}", parent, errno));
            if errno != Some(libc::EINVAL) {
                return Err((format!("C06:{}:bad-name-accepted:mkdir-nul-junk", front), format!("MKDIR \"..\" followed by junk answered {:?}", errno)));
            }
            return Ok((true, errno, opname));
        }
    }
    rep.count(&format!("op:{}", opname), 1);
    let is_bad = name == b"." || name == b".." || name.contains(&b'/');
    if is_bad {
        let must_reject = opname != "lookup" || name.contains(&b'/');
        if must_reject {
            if errno != Some(libc::EINVAL) {
                return Err((
                    format!("C06:{}:bad-name-accepted:{}", front, opname),
                    format!("{} with name {:?} answered {:?} instead of EINVAL", opname, String::from_utf8_lossy(&name), errno),
                ));
            }
            return Ok((true, errno, opname));
        }
    }
    Ok((false, errno, opname))
}

fn history<F: FileSystem + Sync>(mut w: World<F>, r: &mut Rng, outer: &Path, token: &str, rep: &mut Report) -> (Option<Fail>, Vec<String>) {
    let s0 = sentinel(outer);
    let mut forbidden: BTreeSet<u64> = s0.values().map(|n| n.ino).collect();
    use std::os::unix::fs::MetadataExt;
    forbidden.insert(fs::metadata("/").unwrap().ino());
    forbidden.insert(fs::metadata("/etc").map(|m| m.ino()).unwrap_or(0));
    forbidden.insert(fs::metadata(outer).unwrap().ino());
    forbidden.remove(&0);
    let export = outer.join("export");
    let n = r.range(30, 120);
    for _ in 0..n {
        let before = snapshot(&export);
        let res = step(&mut w, r, &forbidden, token, false, rep);
        rep.eval();
        match res {
            Err(f) => return (Some(f), w.trace),
            Ok((was_bad, errno, opname)) => {
                rep.key(&format!("{}|{}|bad{}|errno{:?}", w.front, opname, was_bad, errno));
                if was_bad {
                    let after = snapshot(&export);
                    if after != before {
                        let diff: Vec<&String> = after.keys().filter(|k| before.get(*k) != after.get(*k)).chain(before.keys().filter(|k| !after.contains_key(*k))).collect();
                        let f = (format!("C06:{}:bad-name-changed-tree:{}", w.front, opname), format!("a request with a rejected name changed the export: {:?}", diff));
                        return (Some(f), w.trace);
                    }
                }
            }
        }
        let s = sentinel(outer);
        if s != s0 {
            let diff: Vec<String> = s.keys().filter(|k| s0.get(*k) != s.get(*k)).chain(s0.keys().filter(|k| !s.contains_key(*k))).cloned().collect();
            let f = (format!("C06:{}:outside-modified", w.front), format!("objects outside the export changed: {:?} (after `{}`)", diff, w.trace.last().cloned().unwrap_or_default()));
            return (Some(f), w.trace);
        }
        if w.known.len() > 80 {
            w.known.truncate(80);
        }
    }
    (None, w.trace)
}

pub fn run(args: &Args, rep: &mut Report) {
    let base = args.get("scratch").unwrap_or("/verif/scratch/adhoc").to_string();
    for idx in args.indices() {
        if rep.too_many() {
            break;
        }
        let mut r = Rng::derive(args.seed, "C06", idx, 0);
        rep.begin(idx, "escape-history");
        let sc = Scratch::new(&base, &format!("c06-{}-{}", args.shard, idx));
        let outer = sc.sub("outer");
        let token = format!("TOKEN-{:016x}", r.next());
        setup(&outer, &token);
        let mut churner = Churner::start(&outer, &token);
        let export = outer.join("export");
        let (verdict, trace, front) = if idx % 2 == 0 {
            let mut cfg = base_config(&export);
            cfg.inode_file_handles = r.chance(1, 2);
            cfg.use_host_ino = r.chance(1, 2);
            let pt = mk_pt(cfg, u64::MAX);
            let w = World { conn: pt.conn, known: vec![1], dirs: vec![1], root: 1, root_alias: 1, front: "standalone", trace: vec![] };
            let (v, t) = history(w, &mut r, &outer, &token, rep);
            (v, t, "standalone")
        } else {
            // VFS in front, passthrough does not validate names itself
            let vfs = Arc::new(Vfs::new(VfsOptions { no_open: false, no_opendir: false, ..Default::default() }));
            let cfg = Config { root_dir: export.to_str().unwrap().to_string(), do_import: false, xattr: true, ..Default::default() };
            let pfs = PassthroughFs::<()>::new(cfg).unwrap();
            pfs.import().unwrap();
            let mut conn = Conn::new(vfs.clone());
            let _ = conn.init(33, u64::MAX);
            let at_root = r.chance(1, 2);
            vfs.mount(Box::new(pfs), if at_root { "/" } else { "/m" }).unwrap();
            let root = if at_root { 1 } else { conn.lookup(1, b"m").map(|e| e.nodeid).unwrap_or(1) };
            let root_alias = conn.lookup(root, b".").map(|e| e.nodeid).unwrap_or(root);
            let w = World { conn, known: vec![root], dirs: vec![root], root, root_alias, front: if at_root { "vfs-root" } else { "vfs-sub" }, trace: vec![] };
            let (v, t) = history(w, &mut r, &outer, &token, rep);
            (v, t, if at_root { "vfs-root" } else { "vfs-sub" })
        };
        rep.count(&format!("histories:{}", front), 1);
        rep.count("outside_file_open_close_cycles_of_the_second_thread", churner.finish());
        if let Some((sig, why)) = verdict {
            // with a sub-mount, ".." at the mount root legitimately leaves into the pseudo filesystem
            rep.violation(&sig, idx, J::obj(vec![("why", J::s(why)), ("front", J::s(front)), ("history_tail", J::A(trace.iter().rev().take(30).rev().map(J::s).collect()))]));
        } else if rep.want_sample() {
            rep.sample(J::obj(vec![("front", J::s(front)), ("history_head", J::A(trace.iter().take(12).map(J::s).collect()))]));
        }
    }
}

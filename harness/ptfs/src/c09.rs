//! C09 — concurrent lookups and forgets never lose a reference or duplicate an inode.
//! Schedule control through the crate's cfg-guarded yield points: worker threads park at every
//! yield point and a controller decides who runs next (one runnable thread at a time), so the
//! explored interleaving is exactly the recorded sequence of (thread, point). 2-thread programs
//! are swept exhaustively (stateless DFS over the choice tree), 3-thread programs by random
//! walks; a free-running stress mode injects random delays at the same points instead.
use std::collections::HashSet;
use std::ffi::CString;
use std::fs;
use std::path::Path;
use std::sync::atomic::{AtomicU64, Ordering};
use std::sync::{Arc, Condvar, Mutex};
use std::time::{Duration, Instant};

use fuse_backend_rs::abi::fuse_abi::ROOT_ID;
use fuse_backend_rs::api::filesystem::{Context, FileSystem};
use fuse_backend_rs::passthrough::PassthroughFs;
use vkit::json::J;
use vkit::prng::{hash_str, Rng};
use vkit::run::{Args, Report};

use crate::env::*;

type Fs = Arc<PassthroughFs<()>>;

thread_local! {
    static TID: std::cell::Cell<usize> = const { std::cell::Cell::new(usize::MAX) };
}

#[derive(Default)]
struct SchedState {
    turn: Option<usize>,
    parked: Vec<usize>,
    finished: Vec<usize>,
    trace: Vec<(usize, u32)>,
    abort: bool,
}

struct Sched {
    st: Mutex<SchedState>,
    cv: Condvar,
}

impl Sched {
    fn new() -> Arc<Sched> {
        Arc::new(Sched { st: Mutex::new(SchedState::default()), cv: Condvar::new() })
    }
    /// called from worker threads at every yield point (and once at start with point 0)
    fn park(&self, tid: usize, point: u32) {
        let mut g = self.st.lock().unwrap();
        if g.abort {
            return;
        }
        g.trace.push((tid, point));
        g.parked.push(tid);
        self.cv.notify_all();
        while g.turn != Some(tid) && !g.abort {
            g = self.cv.wait(g).unwrap();
        }
        g.turn = None;
        g.parked.retain(|t| *t != tid);
    }
    fn finish(&self, tid: usize) {
        let mut g = self.st.lock().unwrap();
        g.finished.push(tid);
        self.cv.notify_all();
    }
}

#[derive(Clone, Debug)]
enum Op {
    Lookup(&'static str),
    Forget(u64),
    /// give back the reference this thread obtained by its last lookup
    ForgetOwn,
    ReaddirPlus,
}

#[derive(Clone, Debug, Default)]
struct ThreadResult {
    lookups: Vec<u64>,
    getattr_failures: Vec<String>,
    delivered: u64,
    forgot: u64,
}

fn run_program(fs: &Fs, dir: u64, file: u64, prog: &[Op]) -> ThreadResult {
    let ctx = Context::default();
    let mut out = ThreadResult::default();
    for op in prog {
        match op {
            Op::Lookup(name) => {
                let c = CString::new(*name).unwrap();
                match fs.lookup(&ctx, dir, &c) {
                    Ok(e) => {
                        out.lookups.push(e.inode);
                        out.delivered += 1;
                        // the reference just obtained must make the number usable right away
                        if let Err(err) = fs.getattr(&ctx, e.inode, None) {
                            out.getattr_failures.push(format!("GETATTR({}) right after LOOKUP({}) returned it failed: {:?}", e.inode, name, err.raw_os_error()));
                        }
                    }
                    Err(e) => out.getattr_failures.push(format!("LOOKUP({}) failed: {:?}", name, e.raw_os_error())),
                }
            }
            Op::Forget(n) => {
                fs.forget(&ctx, file, *n);
                out.forgot += n;
            }
            Op::ForgetOwn => {
                if let Some(n) = out.lookups.last().copied() {
                    fs.forget(&ctx, n, 1);
                    out.forgot += 1;
                }
            }
            Op::ReaddirPlus => {
                if let Ok((Some(h), _)) = fs.opendir(&ctx, dir, 0) {
                    let mut got = Vec::new();
                    let _ = fs.readdirplus(&ctx, dir, h, 4096, 0, &mut |_d, e| {
                        got.push(e.inode);
                        Ok(200)
                    });
                    let _ = fs.releasedir(&ctx, dir, 0, h);
                    for n in got {
                        if n == file {
                            out.lookups.push(n);
                            out.delivered += 1;
                        } else {
                            // other entries of the directory: hand the reference straight back
                            fs.forget(&ctx, n, 1);
                        }
                    }
                }
            }
        }
    }
    out
}

fn setup(dir: &Path, ifh: bool) -> (Fs, u64, u64) {
    let _ = fs::remove_dir_all(dir);
    fs::create_dir_all(dir.join("d")).unwrap();
    fs::write(dir.join("d/f"), b"x").unwrap();
    fs::hard_link(dir.join("d/f"), dir.join("d/g")).unwrap();
    let mut cfg = base_config(dir);
    cfg.do_import = false;
    cfg.inode_file_handles = ifh;
    let pfs: Fs = Arc::new(PassthroughFs::<()>::new(cfg).unwrap());
    pfs.import().unwrap();
    let ctx = Context::default();
    let d = pfs.lookup(&ctx, ROOT_ID, &CString::new("d").unwrap()).unwrap().inode;
    (pfs, d, 0)
}

struct Outcome {
    trace: Vec<(usize, u32)>,
    results: Vec<ThreadResult>,
    final_count: Option<u64>,
    file: u64,
    options: Vec<usize>,
    deadlock: bool,
}

/// Run `progs` under the controller, following `choices` (then always option 0).
fn run_schedule(dir: &Path, ifh: bool, initial_refs: u64, progs: &[Vec<Op>], choices: &[usize], mut rnd: Option<&mut Rng>) -> Outcome {
    let (pfs, d, _) = setup(dir, ifh);
    let ctx = Context::default();
    // the references the client already holds
    let mut file = 0;
    // NEVER_SEEN: the server has not met the file at all (no number is on record for it); otherwise the client
    // holds `initial_refs` references, or has held one and given it back
    let never_seen = initial_refs == 0 && NEVER_SEEN.load(Ordering::Relaxed) != 0;
    if !never_seen {
        for _ in 0..initial_refs.max(1) {
            file = pfs.lookup(&ctx, d, &CString::new("f").unwrap()).unwrap().inode;
        }
        if initial_refs == 0 {
            pfs.forget(&ctx, file, 1);
        }
    }
    let sched = Sched::new();
    let s2 = sched.clone();
    fuse_backend_rs::verif::set_yield_callback(Some(Arc::new(move |p| {
        let tid = TID.with(|t| t.get());
        // point 7 is reached under the inode-map write lock: parking there would block every thread that
        // needs the lock before it can park; the scheduled walks let it pass (the stress mode delays there)
        if tid != usize::MAX && p != 7 {
            s2.park(tid, p);
        }
    })));
    let n = progs.len();
    let mut handles = Vec::new();
    for (tid, prog) in progs.iter().enumerate() {
        let (pfs, sched, prog) = (pfs.clone(), sched.clone(), prog.clone());
        handles.push(std::thread::spawn(move || {
            TID.with(|t| t.set(tid));
            sched.park(tid, 0);
            let r = run_program(&pfs, d, file, &prog);
            TID.with(|t| t.set(usize::MAX));
            sched.finish(tid);
            r
        }));
    }
    let mut options = Vec::new();
    let mut step = 0usize;
    let mut deadlock = false;
    let t0 = Instant::now();
    loop {
        let mut g = sched.st.lock().unwrap();
        // wait until every live thread is parked
        while g.parked.len() + g.finished.len() < n || g.turn.is_some() {
            let (gg, to) = sched.cv.wait_timeout(g, Duration::from_secs(5)).unwrap();
            g = gg;
            if to.timed_out() && t0.elapsed() > Duration::from_secs(20) {
                deadlock = true;
                break;
            }
        }
        if deadlock || g.finished.len() == n {
            if deadlock {
                g.abort = true;
                sched.cv.notify_all();
            }
            break;
        }
        let mut avail = g.parked.clone();
        avail.sort();
        options.push(avail.len());
        let pick = if step < choices.len() {
            choices[step].min(avail.len() - 1)
        } else if let Some(r) = rnd.as_deref_mut() {
            r.below(avail.len() as u64) as usize
        } else {
            0
        };
        step += 1;
        g.turn = Some(avail[pick]);
        sched.cv.notify_all();
    }
    let results: Vec<ThreadResult> = handles.into_iter().map(|h| h.join().unwrap_or_default()).collect();
    fuse_backend_rs::verif::set_yield_callback(None);
    let trace = sched.st.lock().unwrap().trace.clone();
    if file == 0 {
        // never-seen file: the number is whatever the first lookup was given; all others must agree with it
        file = results.iter().flat_map(|r| r.lookups.iter().copied()).next().unwrap_or(0);
    }
    Outcome { trace, results, final_count: pfs.verif_refcount(file), file, options, deadlock }
}

fn judge(o: &Outcome, initial_refs: u64) -> Result<(), (String, String)> {
    if o.deadlock {
        return Err(("harness:deadlock".into(), "threads did not reach a yield point or finish within the watchdog".into()));
    }
    let mut delivered = 0;
    let mut forgot = 0;
    for (t, r) in o.results.iter().enumerate() {
        if let Some(f) = r.getattr_failures.first() {
            return Err(("C09:fresh-reference-unusable".into(), format!("thread {}: {}", t, f)));
        }
        for n in &r.lookups {
            if *n != o.file {
                return Err(("C09:duplicate-inode".into(), format!("thread {} was given inode number {} for the file known as {}", t, n, o.file)));
            }
        }
        delivered += r.delivered;
        forgot += r.forgot;
    }
    let want = (initial_refs + delivered).saturating_sub(forgot);
    // a forget may not take more than the client holds: programs are generated accordingly
    let got = o.final_count.unwrap_or(0);
    if got != want {
        return Err((
            if got < want { "C09:lost-reference".to_string() } else { "C09:extra-reference".to_string() },
            format!("{} initial + {} delivered - {} forgotten = {} references, the server counts {:?}", initial_refs, delivered, forgot, want, o.final_count),
        ));
    }
    Ok(())
}

fn trace_key(t: &[(usize, u32)]) -> String {
    t.iter().map(|(a, b)| format!("{}.{}", a, b)).collect::<Vec<_>>().join(",")
}

fn programs(r: &mut Rng, nthreads: usize, initial_refs: u64) -> Vec<Vec<Op>> {
    let mut progs: Vec<Vec<Op>> = Vec::new();
    let mut forget_budget = initial_refs;
    for t in 0..nthreads {
        let mut p = Vec::new();
        let role = if t == 0 { 0 } else { r.below(3) };
        match role {
            0 => {
                p.push(Op::Lookup(*r.pick(&["f", "g"])));
                if r.chance(1, 3) {
                    p.push(Op::Lookup(*r.pick(&["f", "g"])));
                }
                if r.chance(1, 3) {
                    p.push(Op::ForgetOwn);
                }
            }
            1 => {
                if forget_budget > 0 {
                    let k = if r.chance(1, 2) { forget_budget } else { r.range(1, forget_budget) };
                    forget_budget -= k;
                    p.push(Op::Forget(k));
                } else {
                    p.push(Op::Lookup("g"));
                }
            }
            _ => p.push(if r.chance(1, 2) { Op::ReaddirPlus } else { Op::Lookup("g") }),
        }
        progs.push(p);
    }
    // make sure a forget that drops the previous references races with a lookup in most cases
    if forget_budget == initial_refs && initial_refs > 0 && nthreads > 1 {
        let last = progs.len() - 1;
        progs[last] = vec![Op::Forget(initial_refs)];
    }
    progs
}

static STRESS_DELAY: AtomicU64 = AtomicU64::new(1);
static NEVER_SEEN: AtomicU64 = AtomicU64::new(0);

pub fn run(args: &Args, rep: &mut Report) {
    let base = args.get("scratch").unwrap_or("/verif/scratch/adhoc").to_string();
    let sc = Scratch::new(&base, &format!("c09-{}", args.shard));
    let dir = sc.sub("export");
    let stress_secs = args.get_u64("stress", 0);
    let mut distinct: HashSet<u64> = HashSet::new();
    for idx in args.indices() {
        if rep.too_many() {
            break;
        }
        let mut r = Rng::derive(args.seed, "C09", idx, 0);
        rep.begin(idx, "schedule");
        let ifh = r.chance(1, 2);
        let initial_refs = r.below(3);
        NEVER_SEEN.store((initial_refs == 0 && r.chance(1, 2)) as u64, Ordering::Relaxed);
        let nthreads = if idx % 3 == 2 { 3 } else { 2 };
        let progs = programs(&mut r, nthreads, initial_refs);
        let desc = format!("threads={} initial_refs={} never_seen={} inode_file_handles={} programs={:?}", nthreads, initial_refs, NEVER_SEEN.load(Ordering::Relaxed), ifh, progs);
        let mut report = |rep: &mut Report, o: &Outcome, choices: &[usize]| -> bool {
            rep.eval();
            let key = trace_key(&o.trace);
            if distinct.insert(hash_str(&format!("{}|{}", desc, key))) {
                rep.key(&format!("{}|{}", desc, key));
            }
            rep.count("schedules_executed", 1);
            rep.count("yield_points_hit", o.trace.len() as u64);
            match judge(o, initial_refs) {
                Ok(()) => {
                    if rep.want_sample() && o.trace.len() > 6 {
                        rep.sample(J::obj(vec![("setup", J::s(&desc)), ("interleaving (thread.point)", J::s(&key))]));
                    }
                    false
                }
                Err((sig, why)) if sig.starts_with("harness:") => {
                    rep.inconclusive(&sig, J::s(why));
                    true
                }
                Err((sig, why)) => {
                    rep.violation(&sig, idx, J::obj(vec![("why", J::s(why)), ("setup", J::s(&desc)), ("schedule_choices", J::A(choices.iter().map(|c| J::U(*c as u64)).collect())), ("interleaving (thread.point)", J::s(key))]));
                    true
                }
            }
        };
        if nthreads == 2 {
            // exhaustive stateless DFS over the choice tree
            let mut prefix: Vec<usize> = Vec::new();
            let mut runs = 0;
            loop {
                let o = run_schedule(&dir, ifh, initial_refs, &progs, &prefix, None);
                runs += 1;
                let stop = report(rep, &o, &prefix);
                if stop || runs > 4000 {
                    if runs > 4000 {
                        rep.count("sweeps_truncated", 1);
                    }
                    break;
                }
                // next prefix: the deepest position that still has an untried option
                let mut path: Vec<usize> = (0..o.options.len()).map(|i| if i < prefix.len() { prefix[i].min(o.options[i] - 1) } else { 0 }).collect();
                let mut advanced = false;
                while let Some(last) = path.pop() {
                    let k = path.len();
                    if last + 1 < o.options[k] {
                        path.push(last + 1);
                        advanced = true;
                        break;
                    }
                }
                if !advanced {
                    rep.count("exhaustive_sweeps_completed", 1);
                    break;
                }
                prefix = path;
            }
            rep.count("two_thread_sweep_schedules", runs);
        } else {
            for _ in 0..args.get_u64("walks", 12) {
                let mut rr = Rng::derive(args.seed, "C09walk", idx, r.next());
                let o = run_schedule(&dir, ifh, initial_refs, &progs, &[], Some(&mut rr));
                if report(rep, &o, &[]) {
                    break;
                }
            }
        }
    }
    // ---- free-running stress: many threads, random delays at the yield points, final accounting
    if stress_secs > 0 && args.only.is_none() {
        rep.begin(9_000_000, "stress");
        let t0 = Instant::now();
        let mut rounds = 0u64;
        let mut r = Rng::derive(args.seed, "C09stress", args.shard, 0);
        fuse_backend_rs::verif::set_yield_callback(Some(Arc::new(|p| {
            let x = STRESS_DELAY.fetch_add(0x9E37_79B9, Ordering::Relaxed);
            if p == 7 {
                // forget_one between its load and its compare-exchange (write lock held): widen the window in
                // which a lookup that already holds the inode object updates the count
                if x % 2 == 0 {
                    std::thread::sleep(Duration::from_micros(20 + x % 150));
                }
                return;
            }
            match x % 7 {
                0 => std::thread::yield_now(),
                1 => {
                    for _ in 0..(x % 200) {
                        std::hint::spin_loop();
                    }
                }
                2 => std::thread::sleep(Duration::from_micros(x % 30)),
                _ => {}
            }
        })));
        while t0.elapsed() < Duration::from_secs(stress_secs) && !rep.too_many() {
            let ifh = r.chance(1, 2);
            let (pfs, d, _) = setup(&dir, ifh);
            let ctx = Context::default();
            let initial = r.range(1, 3);
            let mut file = 0;
            for _ in 0..initial {
                file = pfs.lookup(&ctx, d, &CString::new("f").unwrap()).unwrap().inode;
            }
            let nthreads = r.range(4, 12) as usize;
            let mut hs = Vec::new();
            let forgetter = r.below(nthreads as u64) as usize;
            for t in 0..nthreads {
                let pfs = pfs.clone();
                let prog: Vec<Op> = if t == forgetter {
                    vec![Op::Forget(initial)]
                } else {
                    (0..r.range(1, 6)).map(|_| match r.below(4) {
                        0 => Op::ReaddirPlus,
                        1 => Op::Lookup("g"),
                        _ => Op::Lookup("f"),
                    }).collect()
                };
                hs.push(std::thread::spawn(move || run_program(&pfs, d, file, &prog)));
            }
            let results: Vec<ThreadResult> = hs.into_iter().map(|h| h.join().unwrap_or_default()).collect();
            let o = Outcome { trace: vec![], results, final_count: pfs.verif_refcount(file), file, options: vec![], deadlock: false };
            rounds += 1;
            rep.eval();
            if let Err((sig, why)) = judge(&o, initial) {
                rep.violation(&format!("{}:stress", sig), 9_000_000, J::obj(vec![("why", J::s(why)), ("threads", J::U(nthreads as u64)), ("inode_file_handles", J::Bool(ifh))]));
                break;
            }
        }
        fuse_backend_rs::verif::set_yield_callback(None);
        rep.count("stress_rounds", rounds);
        rep.key(&format!("stress-shard-{}", args.shard));
    }
}

//! Shared environment of the passthrough monitors: scratch directories, tree snapshots, server setup.
use std::collections::BTreeMap;
use std::ffi::CString;
use std::fs;
use std::os::unix::ffi::OsStrExt;
use std::os::unix::fs::{FileTypeExt, MetadataExt, PermissionsExt};
use std::path::{Path, PathBuf};
use std::sync::Arc;

use fuse_backend_rs::passthrough::{CachePolicy, Config, PassthroughFs};
use vkit::client::Conn;
use vkit::prng::{hash_bytes, Rng};

pub type Fs = Arc<PassthroughFs<()>>;

pub struct Pt {
    pub conn: Conn<Fs>,
    pub fs: Fs,
    pub root: PathBuf,
    /// INIT-negotiated flags
    pub enabled: u64,
}

pub fn base_config(root: &Path) -> Config {
    Config { root_dir: root.to_str().unwrap().to_string(), do_import: true, xattr: true, ..Default::default() }
}

/// Create a passthrough server over `root` and negotiate INIT offering `offer`.
pub fn mk_pt(cfg: Config, offer: u64) -> Pt {
    let root = PathBuf::from(cfg.root_dir.clone());
    let fs: Fs = Arc::new(PassthroughFs::<()>::new(cfg).expect("PassthroughFs::new"));
    let mut conn = Conn::new(fs.clone());
    let enabled = conn.init(33, offer).map(|x| x.0).expect("INIT");
    Pt { conn, fs, root, enabled }
}

pub struct Scratch {
    pub dir: PathBuf,
}

impl Scratch {
    pub fn new(base: &str, tag: &str) -> Scratch {
        let dir = PathBuf::from(base).join(tag);
        let _ = fs::remove_dir_all(&dir);
        fs::create_dir_all(&dir).expect("scratch dir");
        Scratch { dir }
    }
    pub fn sub(&self, name: &str) -> PathBuf {
        let p = self.dir.join(name);
        fs::create_dir_all(&p).unwrap();
        p
    }
}

impl Drop for Scratch {
    fn drop(&mut self) {
        // make everything removable again (in process: fork() is very slow under AddressSanitizer)
        fn open_up(p: &Path) {
            if let Ok(md) = fs::symlink_metadata(p) {
                if md.is_dir() {
                    let _ = fs::set_permissions(p, fs::Permissions::from_mode(0o700));
                    if let Ok(rd) = fs::read_dir(p) {
                        for e in rd.flatten() {
                            open_up(&e.path());
                        }
                    }
                }
            }
        }
        open_up(&self.dir);
        let _ = fs::remove_dir_all(&self.dir);
    }
}

#[derive(Clone, Debug, PartialEq)]
pub struct Node {
    pub kind: char, // f d l p(fifo) c b s
    pub mode: u32,
    pub uid: u32,
    pub gid: u32,
    pub nlink: u64,
    pub size: u64,
    pub rdev: u64,
    pub content: u64, // hash of content / link target
    pub ino: u64,
    pub xattrs: Vec<(Vec<u8>, Vec<u8>)>,
    pub mtime: (i64, i64),
    pub atime: (i64, i64),
    pub ctime: (i64, i64),
}

pub fn list_xattrs(p: &Path) -> Vec<(Vec<u8>, Vec<u8>)> {
    let c = CString::new(p.as_os_str().as_bytes()).unwrap();
    let mut buf = vec![0u8; 4096];
    let n = unsafe { libc::llistxattr(c.as_ptr(), buf.as_mut_ptr() as *mut _, buf.len()) };
    let mut out = Vec::new();
    if n <= 0 {
        return out;
    }
    for name in buf[..n as usize].split(|b| *b == 0).filter(|s| !s.is_empty()) {
        let cn = CString::new(name).unwrap();
        let mut v = vec![0u8; 4096];
        let m = unsafe { libc::lgetxattr(c.as_ptr(), cn.as_ptr(), v.as_mut_ptr() as *mut _, v.len()) };
        if m >= 0 {
            v.truncate(m as usize);
            out.push((name.to_vec(), v));
        }
    }
    out.sort();
    out
}

/// Snapshot of a directory tree: relative path -> node description.
pub fn snapshot(root: &Path) -> BTreeMap<String, Node> {
    let mut out = BTreeMap::new();
    fn walk(root: &Path, rel: &str, out: &mut BTreeMap<String, Node>) {
        let p = if rel.is_empty() { root.to_path_buf() } else { root.join(rel) };
        let md = match fs::symlink_metadata(&p) {
            Ok(m) => m,
            Err(_) => return,
        };
        let ft = md.file_type();
        let kind = if ft.is_dir() {
            'd'
        } else if ft.is_symlink() {
            'l'
        } else if ft.is_file() {
            'f'
        } else if ft.is_fifo() {
            'p'
        } else if ft.is_char_device() {
            'c'
        } else if ft.is_block_device() {
            'b'
        } else {
            's'
        };
        let content = match kind {
            'f' => fs::read(&p).map(|d| hash_bytes(&d)).unwrap_or(0),
            'l' => fs::read_link(&p).map(|t| hash_bytes(t.as_os_str().as_bytes())).unwrap_or(0),
            _ => 0,
        };
        out.insert(
            if rel.is_empty() { ".".to_string() } else { rel.to_string() },
            Node {
                kind,
                mode: md.permissions().mode() & 0o7777,
                uid: md.uid(),
                gid: md.gid(),
                nlink: md.nlink(),
                size: if kind == 'd' { 0 } else { md.size() },
                rdev: md.rdev(),
                content,
                ino: md.ino(),
                xattrs: if kind == 'l' { vec![] } else { list_xattrs(&p) },
                mtime: (md.mtime(), md.mtime_nsec()),
                atime: (md.atime(), md.atime_nsec()),
                ctime: (md.ctime(), md.ctime_nsec()),
            },
        );
        if kind == 'd' {
            let mut names: Vec<String> = fs::read_dir(&p).map(|rd| rd.filter_map(|e| e.ok()).map(|e| e.file_name().to_string_lossy().to_string()).collect()).unwrap_or_default();
            names.sort();
            for n in names {
                let r = if rel.is_empty() { n } else { format!("{}/{}", rel, n) };
                walk(root, &r, out);
            }
        }
    }
    walk(root, "", &mut out);
    out
}

pub fn write_file(p: &Path, data: &[u8], mode: u32) {
    fs::write(p, data).unwrap();
    fs::set_permissions(p, fs::Permissions::from_mode(mode)).unwrap();
}

pub fn fd_count() -> usize {
    fs::read_dir("/proc/self/fd").map(|d| d.count()).unwrap_or(0)
}

pub fn fd_list() -> Vec<String> {
    let mut v: Vec<String> = fs::read_dir("/proc/self/fd")
        .map(|d| {
            d.filter_map(|e| e.ok())
                .map(|e| format!("{}->{}", e.file_name().to_string_lossy(), fs::read_link(e.path()).map(|p| p.to_string_lossy().to_string()).unwrap_or_default()))
                .collect()
        })
        .unwrap_or_default();
    v.sort();
    v
}

pub fn cache_policy(r: &mut Rng) -> CachePolicy {
    match r.below(4) {
        0 => CachePolicy::Never,
        1 => CachePolicy::Metadata,
        2 => CachePolicy::Auto,
        _ => CachePolicy::Always,
    }
}

pub fn geteuid() -> u32 {
    unsafe { libc::geteuid() }
}
pub fn getegid() -> u32 {
    unsafe { libc::getegid() }
}

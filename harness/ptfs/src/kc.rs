//! Kernel-like client bookkeeping on top of `Conn`: lookup counts per inode number, open handles,
//! negotiated switches. Only what successful replies delivered is counted.
use std::collections::BTreeMap;

use vkit::client::{DirentV, EntryV};
use vkit::klayout::kconst;

use crate::env::Pt;

pub struct Kc {
    pub pt: Pt,
    /// references the client holds per inode number
    pub nlookup: BTreeMap<u64, u64>,
    /// host inode number (attr.ino as returned) per inode number
    pub host_ino: BTreeMap<u64, u64>,
    /// (inode number, handle, is_dir)
    pub handles: Vec<(u64, u64, bool)>,
    pub no_open: bool,
    pub no_opendir: bool,
    pub trace: Vec<String>,
}

impl Kc {
    pub fn new(pt: Pt) -> Kc {
        let no_open = pt.enabled & kconst("FUSE_NO_OPEN_SUPPORT") != 0;
        let no_opendir = pt.enabled & kconst("FUSE_NO_OPENDIR_SUPPORT") != 0;
        Kc { pt, nlookup: BTreeMap::new(), host_ino: BTreeMap::new(), handles: Vec::new(), no_open, no_opendir, trace: Vec::new() }
    }
    pub fn got_entry(&mut self, e: &EntryV) {
        if e.nodeid != 0 {
            *self.nlookup.entry(e.nodeid).or_insert(0) += 1;
            self.host_ino.insert(e.nodeid, e.attr.ino);
        }
    }
    pub fn count(&self, n: u64) -> u64 {
        self.nlookup.get(&n).copied().unwrap_or(0)
    }
    pub fn lookup(&mut self, parent: u64, name: &[u8]) -> Result<EntryV, i32> {
        let r = self.pt.conn.lookup(parent, name);
        self.trace.push(format!("lookup({:#x}, {:?}) -> {:?}", parent, String::from_utf8_lossy(name), r.as_ref().map(|e| e.nodeid)));
        if let Ok(e) = &r {
            self.got_entry(e);
        }
        r
    }
    pub fn mkdir(&mut self, parent: u64, name: &[u8], mode: u32) -> Result<EntryV, i32> {
        let r = self.pt.conn.mkdir(parent, name, mode, 0);
        self.trace.push(format!("mkdir({:#x}, {:?}) -> {:?}", parent, String::from_utf8_lossy(name), r.as_ref().map(|e| e.nodeid)));
        if let Ok(e) = &r {
            self.got_entry(e);
        }
        r
    }
    pub fn mknod(&mut self, parent: u64, name: &[u8], mode: u32, rdev: u32) -> Result<EntryV, i32> {
        let r = self.pt.conn.mknod(parent, name, mode, rdev, 0);
        self.trace.push(format!("mknod({:#x}, {:?}, {:#o}) -> {:?}", parent, String::from_utf8_lossy(name), mode, r.as_ref().map(|e| e.nodeid)));
        if let Ok(e) = &r {
            self.got_entry(e);
        }
        r
    }
    pub fn symlink(&mut self, parent: u64, name: &[u8], target: &[u8]) -> Result<EntryV, i32> {
        let r = self.pt.conn.symlink(parent, name, target);
        self.trace.push(format!("symlink({:#x}, {:?} -> {:?}) -> {:?}", parent, String::from_utf8_lossy(name), String::from_utf8_lossy(target), r.as_ref().map(|e| e.nodeid)));
        if let Ok(e) = &r {
            self.got_entry(e);
        }
        r
    }
    pub fn link(&mut self, ino: u64, newparent: u64, name: &[u8]) -> Result<EntryV, i32> {
        let r = self.pt.conn.link(ino, newparent, name);
        self.trace.push(format!("link({:#x} -> {:#x}/{:?}) -> {:?}", ino, newparent, String::from_utf8_lossy(name), r.as_ref().map(|e| e.nodeid)));
        if let Ok(e) = &r {
            self.got_entry(e);
        }
        r
    }
    /// CREATE: returns (entry, handle); the handle is tracked unless zero-message open is in force
    pub fn create(&mut self, parent: u64, name: &[u8], flags: u32, mode: u32) -> Result<(EntryV, u64), i32> {
        let r = self.pt.conn.create(parent, name, flags, mode, 0);
        self.trace.push(format!("create({:#x}, {:?}, flags={:#o}) -> {:?}", parent, String::from_utf8_lossy(name), flags, r.as_ref().map(|e| (e.0.nodeid, e.1))));
        match r {
            Ok((e, fh, _)) => {
                self.got_entry(&e);
                if !self.no_open {
                    self.handles.push((e.nodeid, fh, false));
                }
                Ok((e, fh))
            }
            Err(e) => Err(e),
        }
    }
    pub fn open(&mut self, ino: u64, flags: u32, dir: bool) -> Result<u64, i32> {
        let r = self.pt.conn.open(ino, flags, dir);
        self.trace.push(format!("{}({:#x}, flags={:#o}) -> {:?}", if dir { "opendir" } else { "open" }, ino, flags, r));
        match r {
            Ok((fh, _)) => {
                self.handles.push((ino, fh, dir));
                Ok(fh)
            }
            Err(e) => Err(e),
        }
    }
    pub fn release(&mut self, ino: u64, fh: u64, dir: bool) -> Result<(), i32> {
        let r = self.pt.conn.release(ino, fh, 0, dir);
        self.trace.push(format!("{}({:#x}, fh={}) -> {:?}", if dir { "releasedir" } else { "release" }, ino, fh, r));
        if r.is_ok() {
            if let Some(p) = self.handles.iter().position(|h| *h == (ino, fh, dir)) {
                self.handles.remove(p);
            }
        }
        r
    }
    pub fn forget(&mut self, ino: u64, n: u64) {
        self.pt.conn.forget(ino, n);
        self.trace.push(format!("forget({:#x}, {})", ino, n));
        let c = self.nlookup.entry(ino).or_insert(0);
        *c = c.saturating_sub(n);
    }
    pub fn batch_forget(&mut self, list: &[(u64, u64)]) {
        self.pt.conn.batch_forget(list);
        self.trace.push(format!("batch_forget({:?})", list));
        for (ino, n) in list {
            let c = self.nlookup.entry(*ino).or_insert(0);
            *c = c.saturating_sub(*n);
        }
    }
    /// READDIRPLUS: every delivered entry (with a non-zero nodeid) is a reference
    pub fn readdirplus(&mut self, ino: u64, fh: u64, off: u64, size: u32) -> Result<Vec<DirentV>, i32> {
        let r = self.pt.conn.readdir(ino, fh, off, size, true);
        self.trace.push(format!("readdirplus({:#x}, fh={}, off={}, size={}) -> {:?}", ino, fh, off, size, r.as_ref().map(|v| v.len())));
        if let Ok(v) = &r {
            for d in v {
                if let Some(e) = &d.entry {
                    let e = e.clone();
                    self.got_entry(&e);
                }
            }
        }
        r
    }
    /// Release every handle and forget every reference (quiescence).
    pub fn quiesce(&mut self) {
        for (ino, fh, dir) in self.handles.clone() {
            let _ = self.release(ino, fh, dir);
        }
        let all: Vec<(u64, u64)> = self.nlookup.iter().filter(|(k, v)| **v > 0 && **k != 1).map(|(k, v)| (*k, *v)).collect();
        for chunk in all.chunks(50) {
            self.batch_forget(chunk);
        }
    }
    pub fn tail(&self, n: usize) -> Vec<String> {
        self.trace.iter().rev().take(n).rev().cloned().collect()
    }
}

//! C10 / C11 — overlay filesystem monitors.
//! C10: the tree visible through the overlay equals a reference union model updated by each
//!      operation; lower layers never change; without an upper layer nothing can be modified.
//! C11: after every prefix a freshly started overlay over the same directories shows the same
//!      tree as the running instance; copy-up preserves type, permission bits, content, link
//!      target and the modes of created parent directories.
use std::collections::BTreeMap;
use std::fs;
use std::os::unix::fs::{MetadataExt, PermissionsExt};
use std::path::{Path, PathBuf};

use vkit::json::J;
use vkit::klayout::kconst;
use vkit::prng::Rng;
use vkit::run::{Args, Report};

use crate::env::*;
use crate::ovl::*;

type Fail = (String, String);

#[derive(Clone, Debug)]
enum Op {
    Create(String),
    Mkdir(String),
    Mknod(String),
    Symlink(String, String),
    Link(String, String),
    Unlink(String),
    Rmdir(String),
    Write(String, u64, Vec<u8>),
    Chmod(String, u32),
    Truncate(String, u64),
    /// OPEN with O_TRUNC and the given access mode (what the kernel sends under ATOMIC_O_TRUNC)
    OpenTrunc(String, i32),
    /// open read-only and keep the handle across later operations (e.g. across a copy-up of the file)
    OpenHold(String),
    /// fchmod through the kept handle (SETATTR with FATTR_FH); a plain chmod when no handle is kept for the path
    HeldChmod(String, u32),
    /// release the kept handle
    CloseHeld(String),
    SetXattr(String, Vec<u8>),
    RemoveXattr(String),
    /// open read-write, FALLOCATE (mode 0 or FALLOC_FL_KEEP_SIZE) at (offset, length), release
    Fallocate(String, bool, u64, u64),
}

fn split(path: &str) -> (String, String) {
    match path.rfind('/') {
        Some(k) => (path[..k].to_string(), path[k + 1..].to_string()),
        None => (String::new(), path.to_string()),
    }
}

fn resolve(conn: &mut vkit::client::Conn<std::sync::Arc<fuse_backend_rs::overlayfs::OverlayFs>>, path: &str) -> Result<(u64, u32), i32> {
    let mut cur = 1u64;
    let mut mode = libc::S_IFDIR;
    if path.is_empty() {
        return Ok((1, mode));
    }
    for c in path.split('/') {
        if mode & libc::S_IFMT != libc::S_IFDIR {
            return Err(libc::ENOTDIR);
        }
        let e = conn.lookup(cur, c.as_bytes())?;
        if e.nodeid == 0 {
            return Err(libc::ENOENT);
        }
        cur = e.nodeid;
        mode = e.attr.mode;
    }
    Ok((cur, mode))
}

/// Apply one operation through the client, the way the Linux client decomposes it.
/// handles kept open by the client: path -> (node, handle)
type Held = BTreeMap<String, (u64, u64)>;

fn apply(o: &mut Ovl, op: &Op, held: &mut Held) -> Result<(), i32> {
    let c = &mut o.conn;
    if let Op::Unlink(p) = op {
        // the client closes its kept handle before it removes the name (keeps the reference model simple)
        if let Some((ino, fh)) = held.remove(p) {
            let _ = c.release(ino, fh, libc::O_RDONLY as u32, false);
        }
    }
    let isdir = |m: u32| m & libc::S_IFMT == libc::S_IFDIR;
    match op {
        Op::Create(p) | Op::Mkdir(p) | Op::Mknod(p) | Op::Symlink(p, _) => {
            let (d, leaf) = split(p);
            let (pino, pm) = resolve(c, &d)?;
            if !isdir(pm) {
                return Err(libc::ENOTDIR);
            }
            if let Ok(e) = c.lookup(pino, leaf.as_bytes()) {
                if e.nodeid != 0 {
                    return Err(libc::EEXIST);
                }
            }
            match op {
                Op::Create(_) => {
                    let (e, fh, _) = c.create(pino, leaf.as_bytes(), (libc::O_RDWR | libc::O_CREAT) as u32, 0o644, 0)?;
                    let _ = c.release(e.nodeid, fh, 0, false);
                }
                Op::Mkdir(_) => {
                    c.mkdir(pino, leaf.as_bytes(), 0o755, 0)?;
                }
                Op::Mknod(_) => {
                    c.mknod(pino, leaf.as_bytes(), libc::S_IFREG | 0o640, 0, 0)?;
                }
                Op::Symlink(_, t) => {
                    c.symlink(pino, leaf.as_bytes(), t.as_bytes())?;
                }
                _ => unreachable!(),
            }
            Ok(())
        }
        Op::Link(src, dst) => {
            let (sino, sm) = resolve(c, src)?;
            if isdir(sm) {
                return Err(libc::EPERM);
            }
            let (d, leaf) = split(dst);
            let (pino, pm) = resolve(c, &d)?;
            if !isdir(pm) {
                return Err(libc::ENOTDIR);
            }
            if let Ok(e) = c.lookup(pino, leaf.as_bytes()) {
                if e.nodeid != 0 {
                    return Err(libc::EEXIST);
                }
            }
            c.link(sino, pino, leaf.as_bytes()).map(|_| ())
        }
        Op::Unlink(p) | Op::Rmdir(p) => {
            let (d, leaf) = split(p);
            let (pino, pm) = resolve(c, &d)?;
            if !isdir(pm) {
                return Err(libc::ENOTDIR);
            }
            let e = c.lookup(pino, leaf.as_bytes())?;
            if e.nodeid == 0 {
                return Err(libc::ENOENT);
            }
            let d = isdir(e.attr.mode);
            match op {
                Op::Unlink(_) if d => Err(libc::EISDIR),
                Op::Rmdir(_) if !d => Err(libc::ENOTDIR),
                Op::Unlink(_) => c.unlink(pino, leaf.as_bytes()),
                _ => c.rmdir(pino, leaf.as_bytes()),
            }
        }
        Op::Write(p, off, data) => {
            let (ino, m) = resolve(c, p)?;
            if isdir(m) {
                return Err(libc::EISDIR);
            }
            if m & libc::S_IFMT != libc::S_IFREG {
                return Err(libc::EINVAL);
            }
            let (fh, _) = c.open(ino, libc::O_RDWR as u32, false)?;
            let r = c.write(ino, fh, *off, data, 0, libc::O_RDWR as u32).map(|_| ());
            let _ = c.flush(ino, fh);
            let _ = c.release(ino, fh, 0, false);
            r
        }
        Op::Chmod(p, perm) => {
            let (ino, m) = resolve(c, p)?;
            if m & libc::S_IFMT == libc::S_IFLNK {
                return Err(libc::EOPNOTSUPP);
            }
            c.setattr(ino, kconst("FATTR_MODE"), &[("mode", ((m & libc::S_IFMT) | perm) as u64)]).map(|_| ())
        }
        Op::Truncate(p, sz) => {
            let (ino, m) = resolve(c, p)?;
            if isdir(m) {
                return Err(libc::EISDIR);
            }
            if m & libc::S_IFMT != libc::S_IFREG {
                return Err(libc::EINVAL);
            }
            c.setattr(ino, kconst("FATTR_SIZE"), &[("size", *sz)]).map(|_| ())
        }
        Op::OpenTrunc(p, acc) => {
            let (ino, m) = resolve(c, p)?;
            if isdir(m) {
                return Err(libc::EISDIR);
            }
            if m & libc::S_IFMT != libc::S_IFREG {
                return Err(libc::EINVAL);
            }
            let fl = (*acc | libc::O_TRUNC) as u32;
            let (fh, _) = c.open(ino, fl, false)?;
            let _ = c.release(ino, fh, fl, false);
            Ok(())
        }
        Op::OpenHold(p) => {
            let (ino, m) = resolve(c, p)?;
            if isdir(m) {
                return Err(libc::EISDIR);
            }
            if m & libc::S_IFMT != libc::S_IFREG {
                return Err(libc::EINVAL);
            }
            if !held.contains_key(p) {
                let (fh, _) = c.open(ino, libc::O_RDONLY as u32, false)?;
                held.insert(p.clone(), (ino, fh));
            }
            Ok(())
        }
        Op::HeldChmod(p, perm) => match held.get(p) {
            Some((ino, fh)) => {
                let (ino, fh) = (*ino, *fh);
                c.setattr(ino, kconst("FATTR_MODE") | kconst("FATTR_FH"), &[("mode", (libc::S_IFREG | perm) as u64), ("fh", fh)]).map(|_| ())
            }
            None => apply(o, &Op::Chmod(p.clone(), *perm), held),
        },
        Op::CloseHeld(p) => {
            if let Some((ino, fh)) = held.remove(p) {
                let _ = c.release(ino, fh, libc::O_RDONLY as u32, false);
            }
            Ok(())
        }
        Op::SetXattr(p, v) => {
            let (ino, m) = resolve(c, p)?;
            if m & libc::S_IFMT == libc::S_IFLNK {
                return Err(libc::EPERM);
            }
            c.setxattr(ino, b"user.c10", v, 0)
        }
        Op::RemoveXattr(p) => {
            let (ino, _) = resolve(c, p)?;
            c.removexattr(ino, b"user.c10")
        }
        Op::Fallocate(p, keep, off, len) => {
            let (ino, m) = resolve(c, p)?;
            if isdir(m) {
                return Err(libc::EISDIR);
            }
            if m & libc::S_IFMT != libc::S_IFREG {
                return Err(libc::EINVAL);
            }
            let (fh, _) = c.open(ino, libc::O_RDWR as u32, false)?;
            let mode = if *keep { libc::FALLOC_FL_KEEP_SIZE as u32 } else { 0 };
            let r = c.fallocate(ino, fh, mode, *off, *len);
            let _ = c.release(ino, fh, 0, false);
            r
        }
    }
}

/// Apply the operation to the reference model (an ordinary filesystem). Err = errno class.
fn apply_model(m: &mut BTreeMap<String, MNode>, op: &Op) -> Result<(), i32> {
    let parent_of = |m: &BTreeMap<String, MNode>, p: &str| -> Result<(String, String), i32> {
        let (d, leaf) = split(p);
        if !d.is_empty() {
            // every component of the parent must be a directory
            let mut cur = String::new();
            for c in d.split('/') {
                if !cur.is_empty() {
                    cur.push('/');
                }
                cur.push_str(c);
                match model_get(m, &cur) {
                    None => return Err(libc::ENOENT),
                    Some(MNode::Dir { .. }) => {}
                    Some(_) => return Err(libc::ENOTDIR),
                }
            }
        }
        Ok((d, leaf))
    };
    match op {
        Op::Create(p) | Op::Mkdir(p) | Op::Mknod(p) | Op::Symlink(p, _) => {
            let (d, leaf) = parent_of(m, p)?;
            let dir = model_dir_mut(m, &d).ok_or(libc::ENOENT)?;
            if dir.contains_key(&leaf) {
                return Err(libc::EEXIST);
            }
            let n = match op {
                Op::Create(_) => MNode::File { data: vec![], perm: 0o644, lid: 0 },
                Op::Mkdir(_) => MNode::Dir { perm: 0o755, children: BTreeMap::new() },
                Op::Mknod(_) => MNode::File { data: vec![], perm: 0o640, lid: 0 },
                Op::Symlink(_, t) => MNode::Link { target: t.clone() },
                _ => unreachable!(),
            };
            dir.insert(leaf, n);
            Ok(())
        }
        Op::Link(src, dst) => {
            parent_of(m, src)?;
            let s = model_get(m, src).cloned().ok_or(libc::ENOENT)?;
            if matches!(s, MNode::Dir { .. }) {
                return Err(libc::EPERM);
            }
            let (d, leaf) = parent_of(m, dst)?;
            let max_lid_of_model = {
                fn max_lid(m: &BTreeMap<String, MNode>) -> u64 {
                    m.values().map(|n| match n { MNode::File { lid, .. } => *lid, MNode::Dir { children, .. } => max_lid(children), _ => 0 }).max().unwrap_or(0)
                }
                max_lid(m)
            };
            let dir = model_dir_mut(m, &d).ok_or(libc::ENOENT)?;
            if dir.contains_key(&leaf) {
                return Err(libc::EEXIST);
            }
            // both names belong to one hard-link group from now on
            let (mut s, mut fresh) = (s, 0u64);
            if let MNode::File { lid, .. } = &mut s {
                if *lid == 0 {
                    // a group id no other group of the model uses (a name can be deleted and re-created,
                    // so an id derived from the path would alias the group of the file it used to name)
                    *lid = max_lid_of_model + 1;
                    fresh = *lid;
                }
            }
            dir.insert(leaf, s);
            if fresh != 0 {
                let (sd, sleaf) = split(src);
                if let Some(MNode::File { lid, .. }) = model_dir_mut(m, &sd).and_then(|d| d.get_mut(&sleaf)) {
                    *lid = fresh;
                }
            }
            Ok(())
        }
        Op::Unlink(p) | Op::Rmdir(p) => {
            let (d, leaf) = parent_of(m, p)?;
            let dir = model_dir_mut(m, &d).ok_or(libc::ENOENT)?;
            match (dir.get(&leaf), op) {
                (None, _) => Err(libc::ENOENT),
                (Some(MNode::Dir { .. }), Op::Unlink(_)) => Err(libc::EISDIR),
                (Some(MNode::Dir { children, .. }), _) => {
                    if !children.is_empty() {
                        return Err(libc::ENOTEMPTY);
                    }
                    dir.remove(&leaf);
                    Ok(())
                }
                (Some(_), Op::Rmdir(_)) => Err(libc::ENOTDIR),
                (Some(_), _) => {
                    dir.remove(&leaf);
                    Ok(())
                }
            }
        }
        Op::Write(p, off, data) => {
            let (d, leaf) = parent_of(m, p)?;
            let dir = model_dir_mut(m, &d).ok_or(libc::ENOENT)?;
            match dir.get_mut(&leaf) {
                None => Err(libc::ENOENT),
                Some(MNode::Dir { .. }) => Err(libc::EISDIR),
                Some(MNode::Link { .. }) => Err(libc::EINVAL),
                Some(MNode::File { data: cur, lid, .. }) => {
                    let end = *off as usize + data.len();
                    if cur.len() < end {
                        cur.resize(end, 0);
                    }
                    cur[*off as usize..end].copy_from_slice(data);
                    let (l, newdata) = (*lid, cur.clone());
                    if l != 0 {
                        for_each_link(m, l, &mut |d, _| *d = newdata.clone());
                    }
                    Ok(())
                }
            }
        }
        Op::Chmod(p, perm) => {
            let (d, leaf) = parent_of(m, p)?;
            let dir = model_dir_mut(m, &d).ok_or(libc::ENOENT)?;
            match dir.get_mut(&leaf) {
                None => Err(libc::ENOENT),
                Some(MNode::Link { .. }) => Err(libc::EOPNOTSUPP),
                Some(MNode::File { perm: x, lid, .. }) => {
                    *x = *perm;
                    let l = *lid;
                    if l != 0 {
                        for_each_link(m, l, &mut |_, pm| *pm = *perm);
                    }
                    Ok(())
                }
                Some(MNode::Dir { perm: x, .. }) => {
                    *x = *perm;
                    Ok(())
                }
            }
        }
        Op::OpenTrunc(p, _) => apply_model(m, &Op::Truncate(p.clone(), 0)),
        Op::OpenHold(p) => {
            parent_of(m, p)?;
            match model_get(m, p) {
                None => Err(libc::ENOENT),
                Some(MNode::Dir { .. }) => Err(libc::EISDIR),
                Some(MNode::Link { .. }) => Err(libc::EINVAL),
                Some(MNode::File { .. }) => Ok(()),
            }
        }
        Op::HeldChmod(p, perm) => apply_model(m, &Op::Chmod(p.clone(), *perm)),
        Op::CloseHeld(_) => Ok(()),
        Op::Truncate(p, sz) => {
            let (d, leaf) = parent_of(m, p)?;
            let dir = model_dir_mut(m, &d).ok_or(libc::ENOENT)?;
            match dir.get_mut(&leaf) {
                None => Err(libc::ENOENT),
                Some(MNode::Dir { .. }) => Err(libc::EISDIR),
                Some(MNode::Link { .. }) => Err(libc::EINVAL),
                Some(MNode::File { data, lid, .. }) => {
                    data.resize(*sz as usize, 0);
                    let (l, newdata) = (*lid, data.clone());
                    if l != 0 {
                        for_each_link(m, l, &mut |d, _| *d = newdata.clone());
                    }
                    Ok(())
                }
            }
        }
        Op::Fallocate(p, keep, off, len) => {
            let (d, leaf) = parent_of(m, p)?;
            let dir = model_dir_mut(m, &d).ok_or(libc::ENOENT)?;
            match dir.get_mut(&leaf) {
                None => Err(libc::ENOENT),
                Some(MNode::Dir { .. }) => Err(libc::EISDIR),
                Some(MNode::Link { .. }) => Err(libc::EINVAL),
                Some(MNode::File { data, lid, .. }) => {
                    let end = (*off + *len) as usize;
                    if !*keep && end > data.len() {
                        data.resize(end, 0);
                    }
                    let (l, newdata) = (*lid, data.clone());
                    if l != 0 {
                        for_each_link(m, l, &mut |d, _| *d = newdata.clone());
                    }
                    Ok(())
                }
            }
        }
        Op::SetXattr(p, _) | Op::RemoveXattr(p) => {
            parent_of(m, p)?;
            match model_get(m, p) {
                None => Err(libc::ENOENT),
                Some(MNode::Link { .. }) => Err(libc::EPERM),
                // xattr values are not part of the compared tree; whether the attribute exists
                // (ENODATA on removal) is not modelled: -1 = outcome not determined by the model
                Some(_) => {
                    if matches!(op, Op::RemoveXattr(_)) {
                        Err(-1)
                    } else {
                        Ok(())
                    }
                }
            }
        }
    }
}

fn gen_op(r: &mut Rng, m: &BTreeMap<String, MNode>, held: &[String]) -> Op {
    // operations on kept handles
    if !held.is_empty() && r.chance(1, 6) {
        let p = r.pick(held).clone();
        return if r.chance(3, 4) { Op::HeldChmod(p, *r.pick(&[0o600u32, 0o644, 0o755, 0o640])) } else { Op::CloseHeld(p) };
    }
    let mut flat = BTreeMap::new();
    flatten(m, "", &mut flat);
    let files: Vec<&String> = flat.iter().filter(|(_, n)| n.kind == 'f').map(|(p, _)| p).collect();
    let dirs: Vec<String> = std::iter::once(String::new()).chain(flat.iter().filter(|(_, n)| n.kind == 'd').map(|(p, _)| p.clone())).collect();
    let any: Vec<&String> = flat.keys().collect();
    let newp = |r: &mut Rng| {
        let d = r.pick(&dirs).clone();
        let n = *r.pick(NAMES);
        if d.is_empty() {
            n.to_string()
        } else {
            format!("{}/{}", d, n)
        }
    };
    let anyp = |r: &mut Rng| if any.is_empty() { "a".to_string() } else { (*r.pick(&any)).clone() };
    let filep = |r: &mut Rng| if files.is_empty() { "a".to_string() } else { (*r.pick(&files)).clone() };
    match r.below(14) {
        0 => Op::Create(newp(r)),
        1 | 2 => Op::Mkdir(newp(r)),
        3 => Op::Mknod(newp(r)),
        4 => Op::Symlink(newp(r), r.pick(&["a", "../c", "nowhere"]).to_string()),
        5 => Op::Link(filep(r), newp(r)),
        6 | 7 => Op::Unlink(anyp(r)),
        8 | 9 => Op::Rmdir(if r.chance(3, 4) && dirs.len() > 1 { dirs[r.range(1, dirs.len() as u64 - 1) as usize].clone() } else { anyp(r) }),
        10 => {
            if held.len() < 3 && r.chance(1, 3) {
                Op::OpenHold(filep(r))
            } else {
                let n = r.range(1, 40) as usize;
                Op::Write(filep(r), r.below(30), r.bytes(n))
            }
        }
        11 => Op::Chmod(anyp(r), *r.pick(&[0o600u32, 0o644, 0o755, 0o700, 0o444, 0o1777])),
        12 => {
            if r.chance(1, 3) {
                Op::OpenTrunc(filep(r), *r.pick(&[libc::O_RDONLY, libc::O_WRONLY, libc::O_RDWR]))
            } else if r.chance(1, 3) {
                Op::Fallocate(filep(r), r.chance(1, 3), r.below(50), r.range(1, 40))
            } else {
                Op::Truncate(filep(r), r.below(60))
            }
        }
        _ => {
            if r.chance(1, 3) {
                Op::RemoveXattr(anyp(r))
            } else {
                let n = r.range(1, 20) as usize;
                Op::SetXattr(anyp(r), r.bytes(n))
            }
        }
    }
}

/// content + mode + xattr + name snapshot of a lower directory (access times excluded)
fn lower_state(dir: &Path) -> BTreeMap<String, Node> {
    let mut s = snapshot(dir);
    for n in s.values_mut() {
        n.atime = (0, 0);
    }
    s
}

/// where does `path` live: upper, or the index of the topmost lower that has it
fn host_location(upper: &Path, lowers: &[PathBuf], path: &str) -> Option<PathBuf> {
    if fs::symlink_metadata(upper.join(path)).is_ok() {
        return None;
    }
    lowers.iter().map(|l| l.join(path)).find(|p| fs::symlink_metadata(p).is_ok())
}

fn errclass(e: i32) -> &'static str {
    match e {
        0 => "ok",
        libc::EEXIST => "EEXIST",
        libc::ENOENT => "ENOENT",
        libc::ENOTEMPTY => "ENOTEMPTY",
        libc::ENOTDIR => "ENOTDIR",
        libc::EISDIR => "EISDIR",
        libc::EROFS => "EROFS",
        _ => "other",
    }
}

pub fn run(args: &Args, rep: &mut Report) {
    if args.get("kernel").is_some() {
        return run_kernel(args, rep);
    }
    let base = args.get("scratch").unwrap_or("/verif/scratch/adhoc").to_string();
    let prop = args.prop.clone();
    for idx in args.indices() {
        if rep.too_many() {
            break;
        }
        let mut r = Rng::derive(args.seed, "OVL", idx, 0);
        rep.begin(idx, "overlay-universe");
        let sc = Scratch::new(&base, &format!("ovl-{}-{}-{}", prop, args.shard, idx));
        let nlower = r.range(1, 3) as usize;
        let no_upper = prop == "C10" && idx % 7 == 6;
        let upper_spec = gen_layer(&mut r, 0, 0, true);
        let lower_specs: Vec<BTreeMap<String, Spec>> = (0..nlower).map(|i| gen_layer(&mut r, i + 1, 0, i + 1 < nlower)).collect();
        let upper = sc.dir.join("upper");
        let work = sc.sub("work");
        let lowers: Vec<PathBuf> = (0..nlower).map(|i| sc.dir.join(format!("lower{}", i))).collect();
        if !no_upper {
            materialise(&upper, &upper_spec);
        }
        for (i, l) in lowers.iter().enumerate() {
            materialise(l, &lower_specs[i]);
        }
        let layers_desc = format!("upper={} lowers={}", if no_upper { "none".to_string() } else { format!("{:?}", upper_spec) }, lower_specs.iter().map(|s| format!("{:?}", s)).collect::<Vec<_>>().join(" | "));
        let layers_desc: String = layers_desc.chars().take(1500).collect();
        let mut o = match mk_overlay(if no_upper { None } else { Some(&upper) }, &lowers, &work) {
            Ok(o) => o,
            Err(e) => {
                rep.inconclusive("harness:mk_overlay", J::s(e));
                continue;
            }
        };
        // ---- reference model
        let mut specs: Vec<&BTreeMap<String, Spec>> = Vec::new();
        if !no_upper {
            specs.push(&upper_spec);
        }
        for l in &lower_specs {
            specs.push(l);
        }
        let mut model = union(&specs);
        let lower_before: Vec<BTreeMap<String, Node>> = lowers.iter().map(|l| lower_state(l)).collect();
        let mut trace: Vec<String> = Vec::new();
        let mut verdict: Option<Fail> = None;
        let check_view = |o: &mut Ovl, model: &BTreeMap<String, MNode>, when: &str| -> Result<(BTreeMap<String, WNode>, Option<Fail>), Fail> {
            let seen = walk(&mut o.conn).map_err(|e| ("C10:walk-failed".to_string(), format!("{}: {}", when, e)))?;
            let mut want = BTreeMap::new();
            flatten(model, "", &mut want);
            // symlink permission bits are not part of the statement
            let norm = |t: &BTreeMap<String, WNode>| -> BTreeMap<String, WNode> {
                t.iter().map(|(k, v)| (k.clone(), if v.kind == 'l' { WNode { perm: 0o777, ..v.clone() } } else { v.clone() })).collect()
            };
            if let Some(d) = diff_trees(&norm(&seen), &norm(&want), "overlay", "reference-union") {
                return Ok((seen, Some(("C10:view-differs".to_string(), format!("{}: {}", when, d)))));
            }
            Ok((seen, None))
        };
        match check_view(&mut o, &model, "initial view") {
            Ok((_, None)) => {}
            Ok((_, Some(f))) | Err(f) => verdict = Some(f),
        }
        let mut foreign: Option<Fail> = None;
        // a finding of the other overlay property does not stop this property's checks of the same step
        macro_rules! flag {
            ($f:expr) => {{
                let f: Fail = $f;
                if f.0.starts_with(&prop) {
                    verdict = Some(f);
                    break;
                } else if foreign.is_none() {
                    foreign = Some(f);
                }
            }};
        }
        let nops = if verdict.is_some() { 0 } else { r.range(10, if args.tier == "thorough" { 60 } else { 30 }) };
        let mut held: Held = BTreeMap::new();
        for step in 0..nops {
            let held_paths: Vec<String> = held.keys().cloned().collect();
            let op = gen_op(&mut r, &model, &held_paths);
            let op_path = match &op {
                Op::Write(p, ..) | Op::Chmod(p, _) | Op::HeldChmod(p, _) | Op::Truncate(p, _) | Op::OpenTrunc(p, _) | Op::SetXattr(p, _) | Op::Link(p, _) | Op::Fallocate(p, ..) => Some(p.clone()),
                _ => None,
            };
            // the object a copy-up would start from
            let origin = op_path.as_ref().and_then(|p| if no_upper { None } else { host_location(&upper, &lowers, p) });
            let origin_state = origin.as_ref().and_then(|p| fs::symlink_metadata(p).ok().map(|m| (m.mode(), fs::read(p).unwrap_or_default(), fs::read_link(p).ok())));
            // ancestors that are directories of the upper layer already before the operation (they keep their own mode)
            let mut upper_dirs_before: Vec<PathBuf> = Vec::new();
            if let Some(p) = &op_path {
                let mut cur = PathBuf::new();
                for comp in Path::new(p).parent().map(|x| x.components().collect::<Vec<_>>()).unwrap_or_default() {
                    cur.push(comp);
                    if fs::symlink_metadata(upper.join(&cur)).map(|m| m.is_dir()).unwrap_or(false) {
                        upper_dirs_before.push(cur.clone());
                    }
                }
            }
            let got = apply(&mut o, &op, &mut held).err().unwrap_or(0);
            let mut m2 = model.clone();
            let want = apply_model(&mut m2, &op).err().unwrap_or(0);
            trace.push(format!("{:?} -> {} (reference: {})", op, errclass(got), errclass(want)));
            rep.eval();
            rep.key(&format!("{}|{}|{}|upper{}|lowers{}", format!("{:?}", op).split('(').next().unwrap_or(""), errclass(want), errclass(got), !no_upper, nlower));
            rep.count(&format!("op:{}", format!("{:?}", op).split('(').next().unwrap_or("")), 1);
            if no_upper {
                // every modifying operation fails and changes nothing (a read-only open / its release modify nothing)
                if got == 0 && !matches!(op, Op::OpenHold(_) | Op::CloseHeld(_)) {
                    flag!(("C10:no-upper-modified".into(), format!("without an upper layer `{:?}` succeeded", op)));
                }
            } else {
                // outcome class where the reference is certain
                let certain = matches!(want, 0 | libc::EEXIST | libc::ENOENT | libc::ENOTEMPTY | libc::ENOTDIR | libc::EISDIR);
                if certain && (got == 0) != (want == 0) {
                    flag!((
                        format!("C10:outcome:{}", format!("{:?}", op).split('(').next().unwrap_or("")),
                        format!("`{:?}`: the overlay answered {} (errno {}), an ordinary filesystem holding the union answers {}", op, errclass(got), got, errclass(want)),
                    ));
                }
                if certain && got != 0 && want != 0 && errclass(got) != errclass(want) && errclass(got) != "other" {
                    flag!((
                        format!("C10:errno:{}", format!("{:?}", op).split('(').next().unwrap_or("")),
                        format!("`{:?}`: the overlay answered {}, the reference {}", op, errclass(got), errclass(want)),
                    ));
                }
                if got == 0 && want == 0 {
                    model = m2;
                }
                let _ = want == -1;
            }
            // ---- C10: the view after the operation
            let live = match check_view(&mut o, &model, &format!("after step {} `{:?}`", step, op)) {
                Ok((v, None)) => v,
                Ok((v, Some(f))) => {
                    flag!(f);
                    v
                }
                Err(f) => {
                    // the tree cannot be walked at all: nothing further can be compared
                    if f.0.starts_with(&prop) {
                        verdict = Some(f);
                    } else {
                        foreign = Some(f);
                    }
                    break;
                }
            };
            // ---- C10: lower layers never change
            for (i, l) in lowers.iter().enumerate() {
                let now = lower_state(l);
                if now != lower_before[i] {
                    let k = now.keys().chain(lower_before[i].keys()).find(|k| now.get(*k) != lower_before[i].get(*k)).cloned().unwrap_or_default();
                    flag!(("C10:lower-modified".into(), format!("lower layer {} changed at {:?} after `{:?}`: {:?} -> {:?}", i, k, op, lower_before[i].get(&k), now.get(&k))));
                }
            }
            if verdict.is_some() {
                break;
            }
            if no_upper {
                continue;
            }
            // ---- C11: a freshly started overlay over the same directories shows the same tree
            match mk_overlay(Some(&upper), &lowers, &work) {
                Err(e) => {
                    flag!(("C11:restart-failed".into(), format!("after `{:?}` a new instance cannot start: {}", op, e)));
                }
                Ok(mut o2) => match walk(&mut o2.conn) {
                    Err(e) => {
                        flag!(("C11:restart-walk-failed".into(), format!("after `{:?}`: {}", op, e)));
                    }
                    Ok(fresh) => {
                        rep.count("restart_comparisons", 1);
                        if let Some(d) = diff_trees(&live, &fresh, "running", "restarted") {
                            let kind = if d.contains("but not in the running") { "resurrected" } else if d.contains("but not in the restarted") { "lost" } else { "differs" };
                            flag!((format!("C11:restart-{}:{}", kind, format!("{:?}", op).split('(').next().unwrap_or("")), format!("after `{:?}`: {}", op, d)));
                        }
                    }
                },
            }
            // ---- C11: copy-up preserved the object
            if let (Some(p), Some((omode, odata, otarget)), 0) = (&op_path, &origin_state, got) {
                let up = upper.join(p);
                match fs::symlink_metadata(&up) {
                    Err(_) => {
                        if !matches!(op, Op::Link(..)) {
                            flag!(("C11:copy-up-missing".into(), format!("`{:?}` succeeded on an object of a lower layer but {} does not exist in the upper layer", op, p)));
                        }
                    }
                    Ok(m) => {
                        rep.count("copy_ups_checked", 1);
                        if m.mode() & libc::S_IFMT != omode & libc::S_IFMT {
                            flag!(("C11:copy-up-type".into(), format!("copy-up of {} changed its type: {:#o} -> {:#o}", p, omode, m.mode())));
                        }
                        let want_perm = if let Op::Chmod(_, np) | Op::HeldChmod(_, np) = &op { *np } else { omode & 0o7777 };
                        if m.mode() & libc::S_IFMT != libc::S_IFLNK && m.permissions().mode() & 0o7777 != want_perm {
                            flag!(("C11:copy-up-mode".into(), format!("copy-up of {} for `{:?}`: permission bits {:#o}, expected {:#o}", p, op, m.permissions().mode() & 0o7777, want_perm)));
                        }
                        if let Some(t) = otarget {
                            if fs::read_link(&up).ok().as_ref() != Some(t) {
                                flag!(("C11:copy-up-target".into(), format!("copy-up of symlink {} changed its target", p)));
                            }
                        } else if m.is_file() {
                            let mut want = odata.clone();
                            match &op {
                                Op::Write(_, off, d) => {
                                    let end = *off as usize + d.len();
                                    if want.len() < end {
                                        want.resize(end, 0);
                                    }
                                    want[*off as usize..end].copy_from_slice(d);
                                }
                                Op::Truncate(_, sz) => want.resize(*sz as usize, 0),
                                Op::OpenTrunc(..) => want.clear(),
                                Op::Fallocate(_, keep, off, len) => {
                                    let end = (*off + *len) as usize;
                                    if !*keep && want.len() < end {
                                        want.resize(end, 0);
                                    }
                                }
                                _ => {}
                            }
                            if fs::read(&up).unwrap_or_default() != want {
                                flag!(("C11:copy-up-content".into(), format!("after `{:?}` the upper copy of {} does not hold the complete prior content plus the modification", op, p)));
                            }
                        }
                        // parents created on the way keep the modes of the lower parents
                        let mut cur = PathBuf::new();
                        for comp in Path::new(p).parent().map(|x| x.components().collect::<Vec<_>>()).unwrap_or_default() {
                            cur.push(comp);
                            let lp = lowers.iter().map(|l| l.join(&cur)).find(|x| x.is_dir());
                            if let (Some(lp), Ok(um)) = (lp, fs::metadata(upper.join(&cur))) {
                                let lm = fs::metadata(&lp).unwrap().permissions().mode() & 0o7777;
                                // only parents that did not exist in the upper layer before the operation are "created";
                                // a pre-existing upper directory keeps its own mode
                                let pre_existing = upper_dirs_before.contains(&cur);
                                if !pre_existing && um.permissions().mode() & 0o7777 != lm {
                                    flag!(("C11:copy-up-parent-mode".into(), format!("parent {} was created in the upper layer with mode {:#o}, the lower directory has {:#o}", cur.display(), um.permissions().mode() & 0o7777, lm)));
                                }
                            }
                        }
                        if verdict.is_some() {
                            break;
                        }
                    }
                }
            }
            if foreign.is_some() {
                // the reference model and the overlay have parted ways; later steps would only repeat that
                break;
            }
        }
        rep.count("universes", 1);
        if let Some((sig, _)) = &foreign {
            rep.count(&format!("other-property-observation:{}", sig.split(':').next().unwrap_or("")), 1);
        }
        if let Some((sig, why)) = verdict {
            if sig.starts_with(&prop) {
                rep.violation(&sig, idx, J::obj(vec![("why", J::s(why)), ("layers", J::s(&layers_desc)), ("operations", J::A(trace.iter().rev().take(25).rev().map(J::s).collect()))]));
            } else {
                rep.count(&format!("other-property-observation:{}", sig.split(':').next().unwrap_or("")), 1);
            }
        } else if rep.want_sample() {
            rep.sample(J::obj(vec![("layers", J::s(&layers_desc)), ("operations", J::A(trace.iter().take(10).map(J::s).collect()))]));
        }
    }
}

include!("c10_kernel.rs");

//! Overlay harness: layer specs, materialisation on disk, overlay server construction, tree
//! walker through the FUSE client, and the reference union model (C10) / restart twin (C11).
use std::collections::BTreeMap;
use std::ffi::CString;
use std::fs;
use std::os::unix::ffi::OsStrExt;
use std::path::{Path, PathBuf};
use std::sync::Arc;

use fuse_backend_rs::api::filesystem::Layer;
use fuse_backend_rs::overlayfs::config::Config as OvlConfig;
use fuse_backend_rs::overlayfs::OverlayFs;
use fuse_backend_rs::passthrough::{Config, PassthroughFs};
use vkit::client::Conn;
use vkit::prng::{hash_bytes, Rng};

pub type BoxedLayer = Box<dyn Layer<Inode = u64, Handle = u64> + Send + Sync>;

pub const NAMES: &[&str] = &["a", "b", "c", "d"];

#[derive(Clone, Debug, PartialEq)]
pub enum Spec {
    File { data: Vec<u8>, perm: u32 },
    Dir { perm: u32, opaque: Option<&'static str>, children: BTreeMap<String, Spec> },
    Link { target: String },
    Whiteout,
}

/// Random layer content over NAMES, depth <= 3. `special` allows whiteouts / opaque directories.
pub fn gen_layer(r: &mut Rng, layer_id: usize, depth: usize, special: bool) -> BTreeMap<String, Spec> {
    let mut m = BTreeMap::new();
    for n in NAMES {
        if !r.chance(if depth == 0 { 3 } else { 2 }, 5) {
            continue;
        }
        let s = match r.below(10) {
            0..=3 => Spec::File { data: format!("L{}:{}:{}", layer_id, n, r.below(1000)).into_bytes(), perm: *r.pick(&[0o644u32, 0o600, 0o755, 0o640]) },
            4..=6 if depth < 2 => Spec::Dir {
                perm: *r.pick(&[0o755u32, 0o700, 0o775, 0o1777]), // incl. a sticky directory (a /tmp of a container image)
                opaque: if special && r.chance(1, 4) { Some(*r.pick(&["user.fuseoverlayfs.opaque", "trusted.overlay.opaque", "user.overlay.opaque"])) } else { None },
                children: gen_layer(r, layer_id, depth + 1, special),
            },
            7 => Spec::Link { target: r.pick(&["a", "../b", "zz"]).to_string() },
            8 | 9 if special => Spec::Whiteout,
            _ => Spec::File { data: format!("L{}:{}", layer_id, n).into_bytes(), perm: 0o644 },
        };
        m.insert(n.to_string(), s);
    }
    // now and then a lower layer holds one file larger than the buffers a copy-up moves it through
    // (position-dependent content, so a lost, repeated or shifted chunk changes the bytes)
    if depth == 0 && layer_id >= 1 && r.chance(1, 12) {
        let len = *r.pick(&[65_537usize, (1 << 20) + 5, (4 << 20) + 9, (2 << 20) + (1 << 19) + 59]);
        let seed = r.below(251) as usize;
        if let Some(Spec::File { data, .. }) = m.values_mut().find(|s| matches!(s, Spec::File { .. })) {
            *data = big_data(len, seed);
        }
    }
    m
}

pub fn big_data(len: usize, seed: usize) -> Vec<u8> {
    (0..len).map(|i| (i.wrapping_mul(31) ^ (i >> 8) ^ (i >> 16).wrapping_mul(7) ^ seed) as u8).collect()
}

pub fn materialise(root: &Path, spec: &BTreeMap<String, Spec>) {
    fs::create_dir_all(root).unwrap();
    for (n, s) in spec {
        let p = root.join(n);
        match s {
            Spec::File { data, perm } => crate::env::write_file(&p, data, *perm),
            Spec::Dir { perm, opaque, children } => {
                materialise(&p, children);
                fs::set_permissions(&p, std::os::unix::fs::PermissionsExt::from_mode(*perm)).unwrap();
                if let Some(x) = opaque {
                    let c = CString::new(p.as_os_str().as_bytes()).unwrap();
                    let name = CString::new(*x).unwrap();
                    let rc = unsafe { libc::setxattr(c.as_ptr(), name.as_ptr(), b"y".as_ptr() as *const _, 1, 0) };
                    assert_eq!(rc, 0, "setxattr opaque");
                }
            }
            Spec::Link { target } => std::os::unix::fs::symlink(target, &p).unwrap(),
            Spec::Whiteout => {
                let c = CString::new(p.as_os_str().as_bytes()).unwrap();
                let rc = unsafe { libc::mknod(c.as_ptr(), libc::S_IFCHR | 0o000, libc::makedev(0, 0)) };
                assert_eq!(rc, 0, "mknod whiteout");
            }
        }
    }
}

pub fn new_layer(dir: &Path) -> std::io::Result<Arc<BoxedLayer>> {
    let cfg = Config { root_dir: dir.to_str().unwrap().to_string(), xattr: true, do_import: true, ..Default::default() };
    let fs = Box::new(PassthroughFs::<()>::new(cfg)?);
    fs.import()?;
    Ok(Arc::new(fs as BoxedLayer))
}

pub struct Ovl {
    pub conn: Conn<Arc<OverlayFs>>,
    pub fs: Arc<OverlayFs>,
}

/// Build an overlay server over `upper` (optional) and `lowers` (topmost first).
pub fn mk_overlay(upper: Option<&Path>, lowers: &[PathBuf], work: &Path) -> Result<Ovl, String> {
    let up = match upper {
        Some(u) => Some(new_layer(u).map_err(|e| format!("upper layer: {:?}", e))?),
        None => None,
    };
    let mut ls = Vec::new();
    for l in lowers {
        ls.push(new_layer(l).map_err(|e| format!("lower layer: {:?}", e))?);
    }
    let cfg = OvlConfig { work: work.to_str().unwrap().to_string(), mountpoint: "/nonexistent-mountpoint".into(), do_import: true, ..Default::default() };
    let fs = Arc::new(OverlayFs::new(up, ls, cfg).map_err(|e| format!("OverlayFs::new: {:?}", e))?);
    fs.import().map_err(|e| format!("OverlayFs::import: {:?}", e))?;
    let mut conn = Conn::new(fs.clone());
    conn.init(33, u64::MAX).map_err(|e| format!("INIT: {}", e))?;
    Ok(Ovl { conn, fs })
}

#[derive(Clone, Debug, PartialEq)]
pub struct WNode {
    pub kind: char,
    pub perm: u32,
    pub size: u64,
    pub content: u64,
}

/// Walk the whole tree through the client: LOOKUP / READDIR / GETATTR / READ / READLINK.
pub fn walk(conn: &mut Conn<Arc<OverlayFs>>) -> Result<BTreeMap<String, WNode>, String> {
    let mut out = BTreeMap::new();
    fn rec(conn: &mut Conn<Arc<OverlayFs>>, ino: u64, path: &str, out: &mut BTreeMap<String, WNode>, depth: usize) -> Result<(), String> {
        if depth > 8 {
            return Err(format!("directory nesting beyond 8 at {}", path));
        }
        let fh = conn.open(ino, 0, true).map(|x| x.0).unwrap_or(0);
        let mut off = 0u64;
        let mut names: Vec<(Vec<u8>, u32)> = Vec::new();
        for _ in 0..64 {
            let v = conn.readdir(ino, fh, off, 4096, false).map_err(|e| format!("READDIR {} failed: {}", path, e))?;
            if v.is_empty() {
                break;
            }
            off = v.last().unwrap().off;
            for d in v {
                if d.name != b"." && d.name != b".." {
                    names.push((d.name, d.typ));
                }
            }
        }
        let _ = conn.release(ino, fh, 0, true);
        let mut seen = std::collections::BTreeSet::new();
        for (n, _t) in names {
            let ns = String::from_utf8_lossy(&n).to_string();
            if !seen.insert(ns.clone()) {
                return Err(format!("READDIR {} lists {:?} twice", path, ns));
            }
            let p = if path.is_empty() { ns.clone() } else { format!("{}/{}", path, ns) };
            let e = conn.lookup(ino, &n).map_err(|e| format!("LOOKUP {} (listed by READDIR) failed: {}", p, e))?;
            if e.nodeid == 0 {
                return Err(format!("LOOKUP {} (listed by READDIR) is negative", p));
            }
            let kind = match e.attr.mode & libc::S_IFMT {
                libc::S_IFDIR => 'd',
                libc::S_IFREG => 'f',
                libc::S_IFLNK => 'l',
                libc::S_IFCHR => 'c',
                libc::S_IFIFO => 'p',
                _ => '?',
            };
            let content = match kind {
                'f' => {
                    let fh = conn.open(e.nodeid, libc::O_RDONLY as u32, false).map(|x| x.0).map_err(|er| format!("OPEN {} failed: {}", p, er))?;
                    // read to the end in 64 KiB requests (files larger than one request exist: `big_data`)
                    let mut d = Vec::new();
                    loop {
                        let part = conn.read(e.nodeid, fh, d.len() as u64, 65536, libc::O_RDONLY as u32).map_err(|er| format!("READ {} failed: {}", p, er))?;
                        let n = part.len();
                        d.extend_from_slice(&part);
                        if n < 65536 || d.len() > (64 << 20) {
                            break;
                        }
                    }
                    let _ = conn.release(e.nodeid, fh, 0, false);
                    if d.len() as u64 != e.attr.size {
                        return Err(format!("{}: size attribute {} but {} bytes readable", p, e.attr.size, d.len()));
                    }
                    hash_bytes(&d)
                }
                'l' => hash_bytes(&conn.readlink(e.nodeid).map_err(|er| format!("READLINK {} failed: {}", p, er))?),
                _ => 0,
            };
            out.insert(p.clone(), WNode { kind, perm: e.attr.mode & 0o7777, size: if kind == 'f' { e.attr.size } else { 0 }, content });
            if kind == 'd' {
                rec(conn, e.nodeid, &p, out, depth + 1)?;
            }
            conn.forget(e.nodeid, 1);
        }
        Ok(())
    }
    rec(conn, 1, "", &mut out, 0)?;
    Ok(out)
}

// ------------------------------------------------------------------------------------------------
// reference union model
// ------------------------------------------------------------------------------------------------

#[derive(Clone, Debug, PartialEq)]
pub enum MNode {
    /// `lid` != 0 groups the names of one hard-linked file
    File { data: Vec<u8>, perm: u32, lid: u64 },
    Dir { perm: u32, children: BTreeMap<String, MNode> },
    Link { target: String },
}

/// overlayfs union of `layers` (topmost first) at one directory level.
pub fn union(layers: &[&BTreeMap<String, Spec>]) -> BTreeMap<String, MNode> {
    let mut out = BTreeMap::new();
    let mut names: Vec<&String> = layers.iter().flat_map(|l| l.keys()).collect();
    names.sort();
    names.dedup();
    for n in names {
        // topmost layer that has the name decides
        let mut merged: Vec<&BTreeMap<String, Spec>> = Vec::new();
        let mut result: Option<MNode> = None;
        let mut first = true;
        for l in layers {
            match l.get(n) {
                None => continue,
                Some(Spec::Whiteout) => break,
                Some(Spec::File { data, perm }) => {
                    if first {
                        result = Some(MNode::File { data: data.clone(), perm: *perm, lid: 0 });
                    }
                    break;
                }
                Some(Spec::Link { target }) => {
                    if first {
                        result = Some(MNode::Link { target: target.clone() });
                    }
                    break;
                }
                Some(Spec::Dir { perm, opaque, children }) => {
                    if first {
                        result = Some(MNode::Dir { perm: *perm, children: BTreeMap::new() });
                    }
                    merged.push(children);
                    first = false;
                    if opaque.is_some() {
                        break;
                    }
                    continue;
                }
            }
        }
        if let Some(MNode::Dir { perm, .. }) = result {
            result = Some(MNode::Dir { perm, children: union(&merged) });
        }
        if let Some(r) = result {
            out.insert(n.clone(), r);
        }
    }
    out
}

pub fn flatten(m: &BTreeMap<String, MNode>, prefix: &str, out: &mut BTreeMap<String, WNode>) {
    for (n, node) in m {
        let p = if prefix.is_empty() { n.clone() } else { format!("{}/{}", prefix, n) };
        match node {
            MNode::File { data, perm, .. } => {
                out.insert(p, WNode { kind: 'f', perm: *perm, size: data.len() as u64, content: hash_bytes(data) });
            }
            MNode::Link { target } => {
                out.insert(p, WNode { kind: 'l', perm: 0o777, size: 0, content: hash_bytes(target.as_bytes()) });
            }
            MNode::Dir { perm, children } => {
                out.insert(p.clone(), WNode { kind: 'd', perm: *perm, size: 0, content: 0 });
                flatten(children, &p, out);
            }
        }
    }
}

pub fn model_get<'a>(m: &'a BTreeMap<String, MNode>, path: &str) -> Option<&'a MNode> {
    let mut cur = m;
    let comps: Vec<&str> = path.split('/').collect();
    for (i, c) in comps.iter().enumerate() {
        let n = cur.get(*c)?;
        if i + 1 == comps.len() {
            return Some(n);
        }
        match n {
            MNode::Dir { children, .. } => cur = children,
            _ => return None,
        }
    }
    None
}

pub fn model_dir_mut<'a>(m: &'a mut BTreeMap<String, MNode>, path: &str) -> Option<&'a mut BTreeMap<String, MNode>> {
    if path.is_empty() {
        return Some(m);
    }
    let mut cur = m;
    for c in path.split('/') {
        match cur.get_mut(c)? {
            MNode::Dir { children, .. } => cur = children,
            _ => return None,
        }
    }
    Some(cur)
}

pub fn diff_trees(a: &BTreeMap<String, WNode>, b: &BTreeMap<String, WNode>, an: &str, bn: &str) -> Option<String> {
    for (k, x) in a {
        match b.get(k) {
            None => return Some(format!("{} is visible in the {} tree but not in the {} tree", k, an, bn)),
            Some(y) if x != y => return Some(format!("{} differs: {} {:?} vs {} {:?}", k, an, x, bn, y)),
            _ => {}
        }
    }
    b.keys().find(|k| !a.contains_key(*k)).map(|k| format!("{} is visible in the {} tree but not in the {} tree", k, bn, an))
}

/// apply `f` to every name of the hard-link group `lid`
pub fn for_each_link(m: &mut BTreeMap<String, MNode>, lid: u64, f: &mut dyn FnMut(&mut Vec<u8>, &mut u32)) {
    for n in m.values_mut() {
        match n {
            MNode::File { data, perm, lid: l } if *l == lid => f(data, perm),
            MNode::Dir { children, .. } => for_each_link(children, lid, f),
            _ => {}
        }
    }
}

//! C12 (second half) — the VFS, passthrough and overlay layers switch on no-open, no-opendir,
//! writeback, kill-priv and per-file DAX behaviour only when that feature was actually negotiated,
//! and the VFS refuses a second INIT.
//!
//! The behaviour is observed through the client, never read from the crate's state: after an INIT
//! with a random offer against a random stack configuration, the set N of negotiated features is
//! what the client reads in the INIT reply (flags; flags2 only under FUSE_INIT_EXT). Then
//!   OPEN answered ENOSYS                                      =>  FUSE_NO_OPEN_SUPPORT in N
//!   OPENDIR answered ENOSYS                                   =>  FUSE_NO_OPENDIR_SUPPORT in N
//!   (handle-less READ / READDIR being served is recorded as a counter only)
//!   a file opened O_WRONLY can be READ through its handle    =>  FUSE_WRITEBACK_CACHE in N
//!   WRITE|KILL_SUIDGID / OPEN(O_TRUNC)|KILL_SUIDGID by root clears setuid => FUSE_HANDLE_KILLPRIV_V2 in N
//!   FUSE_ATTR_DAX in a LOOKUP reply                           =>  FUSE_HAS_INODE_DAX in N
//! and a second INIT to a VFS is refused and changes none of these answers.
use std::fs;
use std::os::unix::fs::PermissionsExt;
use std::sync::Arc;

use fuse_backend_rs::api::filesystem::FileSystem;
use fuse_backend_rs::api::{Vfs, VfsOptions};
use fuse_backend_rs::abi::fuse_abi::FsOptions;
use fuse_backend_rs::overlayfs::config::Config as OvlConfig;
use fuse_backend_rs::overlayfs::OverlayFs;
use fuse_backend_rs::passthrough::{Config, PassthroughFs};
use vkit::client::Conn;
use vkit::json::J;
use vkit::klayout::kconst;
use vkit::prng::Rng;
use vkit::run::{Args, Report};

use crate::env::*;

const CONTENT: &[u8] = b"0123456789abcdefghijklmnopqrstuvwxyz-0123456789abcdefghijklmnopqrstuvwxyz";

#[derive(Debug, Default, Clone, PartialEq)]
struct Seen {
    open_enosys: bool,
    handleless_read: bool,
    opendir_enosys: bool,
    handleless_readdir: bool,
    wronly_readable: Option<bool>,
    write_kill_cleared_suid: Option<bool>,
    trunc_kill_cleared_suid: Option<bool>,
    dax_attr: bool,
}

fn bit(name: &str) -> u64 {
    // FUSE_HAS_INODE_DAX lives in flags2
    match name {
        "FUSE_HAS_INODE_DAX" => kconst(name) | 0, // kernel constant is already the 64-bit position (1 << 33)
        _ => kconst(name),
    }
}

fn set_suid(path: &std::path::Path) {
    fs::set_permissions(path, fs::Permissions::from_mode(0o4755)).unwrap();
}

fn has_suid(path: &std::path::Path) -> bool {
    fs::metadata(path).map(|m| m.permissions().mode() & 0o4000 != 0).unwrap_or(false)
}

/// Probe the behaviour switches. `host` = host directory holding `f`, `g`, `big` and `d`, `base` = node of that directory.
fn probe<F: FileSystem + Sync>(c: &mut Conn<F>, base: u64, host: &std::path::Path) -> Result<Seen, String> {
    let mut s = Seen::default();
    let f = c.lookup(base, b"f").map_err(|e| format!("LOOKUP f: {}", e))?;
    let big = c.lookup(base, b"big").map_err(|e| format!("LOOKUP big: {}", e))?;
    let d = c.lookup(base, b"d").map_err(|e| format!("LOOKUP d: {}", e))?;
    let dax = kconst("FUSE_ATTR_DAX") as u32;
    s.dax_attr = f.attr.flags & dax != 0 || big.attr.flags & dax != 0;
    // ---- open / handle-less read
    match c.open(f.nodeid, libc::O_RDONLY as u32, false) {
        Err(e) if e == libc::ENOSYS => s.open_enosys = true,
        Err(e) => return Err(format!("OPEN f: errno {}", e)),
        Ok((fh, _)) => {
            let _ = c.release(f.nodeid, fh, libc::O_RDONLY as u32, false);
        }
    }
    if let Ok(data) = c.read(f.nodeid, 0, 0, 16, libc::O_RDONLY as u32) {
        if data == CONTENT[..16] {
            s.handleless_read = true;
        }
    }
    // ---- opendir / handle-less readdir
    match c.open(d.nodeid, libc::O_RDONLY as u32, true) {
        Err(e) if e == libc::ENOSYS => s.opendir_enosys = true,
        Err(e) => return Err(format!("OPENDIR d: errno {}", e)),
        Ok((fh, _)) => {
            let _ = c.release(d.nodeid, fh, 0, true);
        }
    }
    if let Ok(v) = c.readdir(d.nodeid, 0, 0, 4096, false) {
        if v.iter().any(|e| e.name == b"inside") {
            s.handleless_readdir = true;
        }
    }
    // ---- writeback: O_WRONLY handle readable
    if !s.open_enosys {
        if let Ok((fh, _)) = c.open(f.nodeid, libc::O_WRONLY as u32, false) {
            s.wronly_readable = Some(matches!(c.read(f.nodeid, fh, 0, 16, libc::O_WRONLY as u32), Ok(ref d) if d[..] == CONTENT[..16]));
            let _ = c.release(f.nodeid, fh, libc::O_WRONLY as u32, false);
        }
    }
    // ---- kill-priv: WRITE with FUSE_WRITE_KILL_SUIDGID as root
    let g = c.lookup(base, b"g").map_err(|e| format!("LOOKUP g: {}", e))?;
    let gp = host.join("g");
    set_suid(&gp);
    let fh = if s.open_enosys { Some(0) } else { c.open(g.nodeid, libc::O_WRONLY as u32, false).ok().map(|x| x.0) };
    if let Some(fh) = fh {
        if c.write(g.nodeid, fh, 0, b"xy", kconst("FUSE_WRITE_KILL_SUIDGID") as u32, libc::O_WRONLY as u32).is_ok() {
            s.write_kill_cleared_suid = Some(!has_suid(&gp));
        }
        if !s.open_enosys {
            let _ = c.release(g.nodeid, fh, libc::O_WRONLY as u32, false);
        }
    }
    // ---- kill-priv: OPEN(O_TRUNC) with FUSE_OPEN_KILL_SUIDGID as root
    if !s.open_enosys {
        set_suid(&gp);
        let mut b = vkit::gen::Body::new();
        let st = b.st("fuse_open_in");
        b.set(st, "fuse_open_in", "flags", (libc::O_WRONLY | libc::O_TRUNC) as u64);
        b.set(st, "fuse_open_in", "open_flags", kconst("FUSE_OPEN_KILL_SUIDGID"));
        let rep = c.raw(kconst("FUSE_OPEN") as u32, g.nodeid, &b.b);
        if rep.errno == 0 {
            s.trunc_kill_cleared_suid = Some(!has_suid(&gp));
            let fh = vkit::klayout::get(&rep.body, 0, "fuse_open_out", "fh").unwrap_or(0);
            let _ = c.release(g.nodeid, fh, libc::O_WRONLY as u32, false);
        }
    }
    Ok(s)
}

fn judge(s: &Seen, n: u64) -> Option<(String, String)> {
    let has = |name: &str| n & bit(name) != 0;
    // Only the ENOSYS answers count: a filesystem that serves READ / READDIR whatever the handle says
    // (the overlay's READDIR does) has not switched anything on. The handle-less probes stay as counters.
    if s.open_enosys && !has("FUSE_NO_OPEN_SUPPORT") {
        return Some(("C12:no-open-without-negotiation".into(), format!("OPEN answered ENOSYS: {}, handle-less READ served: {}; FUSE_NO_OPEN_SUPPORT is not in the INIT reply", s.open_enosys, s.handleless_read)));
    }
    if s.opendir_enosys && !has("FUSE_NO_OPENDIR_SUPPORT") {
        return Some(("C12:no-opendir-without-negotiation".into(), format!("OPENDIR answered ENOSYS: {}, handle-less READDIR served: {}; FUSE_NO_OPENDIR_SUPPORT is not in the INIT reply", s.opendir_enosys, s.handleless_readdir)));
    }
    if s.wronly_readable == Some(true) && !has("FUSE_WRITEBACK_CACHE") {
        return Some(("C12:writeback-without-negotiation".into(), "a file opened O_WRONLY can be READ through its handle (write-back behaviour); FUSE_WRITEBACK_CACHE is not in the INIT reply".into()));
    }
    if (s.write_kill_cleared_suid == Some(true) || s.trunc_kill_cleared_suid == Some(true)) && !has("FUSE_HANDLE_KILLPRIV_V2") {
        return Some((
            "C12:killpriv-without-negotiation".into(),
            format!("setuid cleared by WRITE|KILL_SUIDGID: {:?}, by OPEN(O_TRUNC)|KILL_SUIDGID: {:?}; FUSE_HANDLE_KILLPRIV_V2 is not in the INIT reply", s.write_kill_cleared_suid, s.trunc_kill_cleared_suid),
        ));
    }
    if s.dax_attr && !has("FUSE_HAS_INODE_DAX") {
        return Some(("C12:dax-without-negotiation".into(), "FUSE_ATTR_DAX in a LOOKUP reply; FUSE_HAS_INODE_DAX is not (effectively) in the INIT reply".into()));
    }
    None
}

enum Stack {
    Pt(Conn<Arc<PassthroughFs<()>>>),
    Vfs(Conn<Arc<Vfs>>, Arc<Vfs>),
    Ovl(Conn<Arc<OverlayFs>>),
}

pub fn run(args: &Args, rep: &mut Report) {
    vkit::xport::install_panic_hook();
    let base = args.get("scratch").unwrap_or("/verif/scratch/adhoc").to_string();
    let feature_bits: Vec<(&str, u32)> = vec![
        // (kernel name, protocol minor that introduced it)
        ("FUSE_NO_OPEN_SUPPORT", 23),
        ("FUSE_WRITEBACK_CACHE", 23),
        ("FUSE_NO_OPENDIR_SUPPORT", 29),
        ("FUSE_HANDLE_KILLPRIV_V2", 33),
        ("FUSE_HAS_INODE_DAX", 36),
    ];
    let filler = ["FUSE_ASYNC_READ", "FUSE_BIG_WRITES", "FUSE_ATOMIC_O_TRUNC", "FUSE_DO_READDIRPLUS", "FUSE_READDIRPLUS_AUTO", "FUSE_PARALLEL_DIROPS", "FUSE_MAX_PAGES", "FUSE_HANDLE_KILLPRIV", "FUSE_POSIX_ACL"];
    for idx in args.indices() {
        if rep.too_many() {
            break;
        }
        let mut r = Rng::derive(args.seed, "C12S", idx, 0);
        rep.begin(idx, "stack-toggles");
        let sc = Scratch::new(&base, &format!("c12-{}-{}", args.shard, idx));
        let root = sc.sub("export");
        let mk_files = |dir: &std::path::Path| {
            fs::write(dir.join("f"), CONTENT).unwrap();
            fs::write(dir.join("g"), CONTENT).unwrap();
            fs::write(dir.join("big"), vec![7u8; 8192]).unwrap();
            fs::create_dir_all(dir.join("d")).unwrap();
            fs::write(dir.join("d/inside"), b"x").unwrap();
        };
        mk_files(&root);
        // ---- the client's offer
        let minor = *r.pick(&[23u32, 28, 29, 31, 33, 35, 36, 38]);
        let mut offer = 0u64;
        for (name, since) in &feature_bits {
            if minor >= *since && r.chance(1, 2) {
                offer |= bit(name);
            }
        }
        for name in &filler {
            if r.chance(1, 2) {
                offer |= kconst(name);
            }
        }
        // ---- the stack and its switches
        let sw: Vec<bool> = (0..6).map(|_| r.chance(1, 2)).collect();
        let dax_file_size = *r.pick(&[None, Some(0u64), Some(4096)]);
        let kind = idx % 5;
        // custom out_opts of a VFS: default set minus a random subset of the five feature bits
        let mut vopts = VfsOptions { no_open: sw[0], no_opendir: sw[1], no_writeback: sw[2], killpriv_v2: sw[3], ..Default::default() };
        let mut dropped = Vec::new();
        if r.chance(1, 3) {
            for (name, _) in &feature_bits {
                if r.chance(1, 3) {
                    vopts.out_opts.remove(FsOptions::from_bits_truncate(bit(name)));
                    dropped.push(*name);
                }
            }
        }
        let cache_policy = match r.below(3) {
            0 => fuse_backend_rs::passthrough::CachePolicy::Always,
            1 => fuse_backend_rs::passthrough::CachePolicy::Auto,
            _ => fuse_backend_rs::passthrough::CachePolicy::Never,
        };
        let cache_never = matches!(cache_policy, fuse_backend_rs::passthrough::CachePolicy::Never);
        let cache_always = matches!(cache_policy, fuse_backend_rs::passthrough::CachePolicy::Always);
        let pcfg = |do_import: bool| Config { cache_policy: cache_policy.clone(), root_dir: root.to_str().unwrap().to_string(), do_import, xattr: true, writeback: sw[2], no_open: sw[0], no_opendir: sw[1], killpriv_v2: sw[3], dax_file_size, ..Default::default() };
        let desc;
        let mut export = 1u64; // node of the exported directory
        let mut host = root.clone();
        let mut stack = match kind {
            0 => {
                desc = format!("standalone passthrough {{no_open:{}, no_opendir:{}, writeback:{}, killpriv_v2:{}, dax_file_size:{:?}, cache_policy:{:?}}}", sw[0], sw[1], sw[2], sw[3], dax_file_size, cache_policy);
                let fs = Arc::new(PassthroughFs::<()>::new(pcfg(true)).expect("PassthroughFs::new"));
                Stack::Pt(Conn::new(fs))
            }
            1 | 2 | 3 => {
                let late = kind == 3;
                let at_root = kind == 1;
                desc = format!(
                    "VFS {{no_open:{}, no_opendir:{}, no_writeback:{}, killpriv_v2:{}, out_opts minus {:?}}} + passthrough {{dax_file_size:{:?}}} mounted at {} {}",
                    sw[0], sw[1], sw[2], sw[3], dropped, dax_file_size, if at_root { "/" } else { "/m" }, if late { "after INIT" } else { "before INIT" }
                );
                let vfs = Arc::new(Vfs::new(vopts));
                let mut conn = Conn::new(vfs.clone());
                if !late {
                    let pfs = PassthroughFs::<()>::new(pcfg(false)).expect("PassthroughFs::new");
                    pfs.import().expect("import");
                    vfs.mount(Box::new(pfs), if at_root { "/" } else { "/m" }).expect("mount");
                }
                let _ = &mut conn;
                Stack::Vfs(conn, vfs)
            }
            _ => {
                desc = format!("standalone overlay {{no_open:{}, no_opendir:{}, writeback:{}, killpriv_v2:{}, perfile_dax:{}}} over passthrough layers", sw[0], sw[1], sw[2], sw[3], sw[4]);
                let upper = sc.sub("upper");
                mk_files(&upper);
                host = upper.clone();
                let lower = sc.sub("lower");
                let work = sc.sub("work");
                let up = crate::ovl::new_layer(&upper).expect("upper layer");
                let lo = crate::ovl::new_layer(&lower).expect("lower layer");
                let cfg = OvlConfig { work: work.to_str().unwrap().to_string(), mountpoint: "/nonexistent-mountpoint".into(), do_import: true, writeback: sw[2], no_open: sw[0], no_opendir: sw[1], killpriv_v2: sw[3], perfile_dax: sw[4], ..Default::default() };
                let fs = Arc::new(OverlayFs::new(Some(up), vec![lo], cfg).expect("OverlayFs::new"));
                Stack::Ovl(Conn::new(fs))
            }
        };
        // ---- INIT
        let init = match &mut stack {
            Stack::Pt(c) => c.init(minor, offer),
            Stack::Vfs(c, _) => c.init(minor, offer),
            Stack::Ovl(c) => c.init(minor, offer),
        };
        let n = match init {
            Ok((n, _)) => n,
            Err(e) => {
                rep.inconclusive("harness:init-refused", J::obj(vec![("stack", J::s(&desc)), ("errno", J::I(e as i64))]));
                continue;
            }
        };
        if let Stack::Vfs(c, vfs) = &mut stack {
            if kind == 3 {
                let pfs = PassthroughFs::<()>::new(pcfg(false)).expect("PassthroughFs::new");
                pfs.import().expect("import");
                vfs.mount(Box::new(pfs), "/m").expect("mount");
            }
            if kind != 1 {
                match c.lookup(1, b"m") {
                    Ok(e) => export = e.nodeid,
                    Err(e) => {
                        rep.inconclusive("harness:mountpoint-lookup", J::obj(vec![("stack", J::s(&desc)), ("errno", J::I(e as i64))]));
                        continue;
                    }
                }
            }
        }
        let seen = match &mut stack {
            Stack::Pt(c) => probe(c, export, &host),
            Stack::Vfs(c, _) => probe(c, export, &host),
            Stack::Ovl(c) => probe(c, export, &host),
        };
        rep.eval();
        let seen = match seen {
            Ok(s) => s,
            Err(e) => {
                rep.inconclusive("harness:probe", J::obj(vec![("stack", J::s(&desc)), ("error", J::s(e))]));
                continue;
            }
        };
        let names: Vec<&str> = feature_bits.iter().filter(|(nm, _)| n & bit(nm) != 0).map(|(nm, _)| *nm).collect();
        let offered: Vec<&str> = feature_bits.iter().filter(|(nm, _)| offer & bit(nm) != 0).map(|(nm, _)| *nm).collect();
        rep.key(&format!(
            "stack{}|sw{}{}{}{}|dax{:?}|neg{:05b}|seen{}{}{}{}{}",
            kind, sw[0] as u8, sw[1] as u8, sw[2] as u8, sw[3] as u8, dax_file_size.is_some(),
            feature_bits.iter().enumerate().fold(0u32, |a, (i, (nm, _))| a | (((n & bit(nm) != 0) as u32) << i)),
            (seen.open_enosys || seen.handleless_read) as u8, (seen.opendir_enosys || seen.handleless_readdir) as u8, (seen.wronly_readable == Some(true)) as u8,
            (seen.write_kill_cleared_suid == Some(true) || seen.trunc_kill_cleared_suid == Some(true)) as u8, seen.dax_attr as u8
        ));
        rep.count(&format!("stack-kind:{}", kind), 1);
        for (on, what) in [
            (seen.open_enosys, "behaviour-on:no-open"),
            (seen.opendir_enosys, "behaviour-on:no-opendir"),
            (seen.handleless_read, "observed:handle-less-read-served"),
            (seen.handleless_readdir, "observed:handle-less-readdir-served"),
            (seen.wronly_readable == Some(true), "behaviour-on:writeback"),
            (seen.write_kill_cleared_suid == Some(true) || seen.trunc_kill_cleared_suid == Some(true), "behaviour-on:killpriv"),
            (seen.dax_attr, "behaviour-on:dax"),
        ] {
            if on {
                rep.count(what, 1);
            }
        }
        let mut verdict = judge(&seen, n);
        // ---- the reply carries precisely offered AND configured for the four switchable features
        if verdict.is_none() {
            let in_out = |name: &str| kind == 0 || kind == 4 || !dropped.contains(&name);
            let wanted = [
                // a standalone passthrough honours no_open only with cache_policy=always (documented, warns otherwise)
                ("FUSE_NO_OPEN_SUPPORT", sw[0] && in_out("FUSE_NO_OPEN_SUPPORT") && (kind != 0 || cache_always)),
                ("FUSE_NO_OPENDIR_SUPPORT", sw[1] && in_out("FUSE_NO_OPENDIR_SUPPORT")),
                // the VFS switch is no_writeback, the passthrough / overlay switch is writeback
                // (a standalone passthrough drops writeback under cache_policy=never: documented, warns)
                ("FUSE_WRITEBACK_CACHE", if (1..=3).contains(&kind) { !sw[2] && in_out("FUSE_WRITEBACK_CACHE") } else { sw[2] && (kind != 0 || !cache_never) }),
                ("FUSE_HANDLE_KILLPRIV_V2", sw[3] && in_out("FUSE_HANDLE_KILLPRIV_V2")),
            ];
            for (name, want) in wanted {
                let expect = want && offer & bit(name) != 0;
                let got = n & bit(name) != 0;
                if expect != got {
                    verdict = Some((
                        format!("C12:stack-negotiation:{}:{}", name, if got { "enabled-unasked" } else { "not-enabled" }),
                        format!("{}: offered {}, configured {}, in the INIT reply {}", name, offer & bit(name) != 0, want, got),
                    ));
                    break;
                }
            }
        }
        // ---- the VFS refuses a second INIT, and nothing changes
        if verdict.is_none() {
            if let Stack::Vfs(c, _) = &mut stack {
                let offer2 = offer ^ feature_bits.iter().filter(|(_, since)| minor >= *since).fold(0u64, |a, (nm, _)| a | bit(nm));
                match c.init(minor, offer2) {
                    Ok(_) => verdict = Some(("C12:vfs-second-init-accepted".into(), "a second INIT to an initialised VFS was answered successfully".into())),
                    Err(_) => {
                        rep.count("second-init-refused", 1);
                        match probe(c, export, &host) {
                            Ok(s2) if s2 != seen => verdict = Some(("C12:vfs-second-init-changed-behaviour".into(), format!("behaviour before the refused second INIT {:?}, after {:?}", seen, s2))),
                            _ => {}
                        }
                    }
                }
            }
        }
        if let Some((sig, why)) = verdict {
            rep.violation(&sig, idx, J::obj(vec![("why", J::s(why)), ("stack", J::s(&desc)), ("client_minor", J::U(minor as u64)), ("offered", J::s(format!("{:?}", offered))), ("negotiated", J::s(format!("{:?}", names))), ("observed", J::s(format!("{:?}", seen)))]));
        } else if rep.want_sample() {
            rep.sample(J::obj(vec![("stack", J::s(&desc)), ("client_minor", J::U(minor as u64)), ("offered", J::s(format!("{:?}", offered))), ("negotiated", J::s(format!("{:?}", names))), ("observed", J::s(format!("{:?}", seen)))]));
        }
    }
}

//! C15 — handles and descriptors are released when the client releases them.
//! Single-threaded worker: /proc/self/fd count and the server's own tables (hook) at baseline,
//! and again after the client released every handle and forgot every inode. Real EMFILE faults
//! are injected by lowering RLIMIT_NOFILE so that exactly k descriptor numbers are free.
use std::collections::BTreeSet;
use std::fs;
use std::path::Path;

use fuse_backend_rs::passthrough::CachePolicy;
use vkit::json::J;
use vkit::prng::Rng;
use vkit::run::{Args, Report};

use crate::env::*;
use crate::kc::Kc;

pub fn populate(root: &Path, r: &mut Rng) {
    for i in 0..4 {
        write_file(&root.join(format!("f{}", i)), &r.bytes(10 + 300 * i), 0o644);
    }
    fs::create_dir_all(root.join("d0/sub")).unwrap();
    fs::create_dir_all(root.join("d1")).unwrap();
    for i in 0..6 {
        write_file(&root.join(format!("d0/e{}", i)), b"x", 0o644);
    }
    std::os::unix::fs::symlink("f0", root.join("sl")).unwrap();
    let c = std::ffi::CString::new(root.join("fifo").to_str().unwrap()).unwrap();
    unsafe { libc::mkfifo(c.as_ptr(), 0o644) };
    write_file(&root.join("noperm"), b"secret", 0o000);
}

fn used_fds() -> BTreeSet<i32> {
    fs::read_dir("/proc/self/fd").map(|d| d.filter_map(|e| e.ok()).filter_map(|e| e.file_name().to_string_lossy().parse::<i32>().ok()).collect()).unwrap_or_default()
}

/// Run `f` while exactly `k` descriptor numbers are available to the process.
pub fn with_free_slots<T>(k: usize, f: impl FnOnce() -> T) -> T {
    let mut used = used_fds();
    // the directory stream used for listing is closed again
    let mut lim = libc::rlimit { rlim_cur: 0, rlim_max: 0 };
    unsafe { libc::getrlimit(libc::RLIMIT_NOFILE, &mut lim) };
    let old = lim;
    let mut free = 0usize;
    let mut l = 0i32;
    // drop numbers that are not open any more (the listing's own fd)
    used.retain(|fd| unsafe { libc::fcntl(*fd, libc::F_GETFD) } >= 0);
    while free < k {
        if !used.contains(&l) {
            free += 1;
        }
        l += 1;
    }
    // extend over directly following used numbers so that the next free number is outside
    while used.contains(&l) {
        l += 1;
    }
    lim.rlim_cur = l as u64;
    unsafe { libc::setrlimit(libc::RLIMIT_NOFILE, &lim) };
    let out = f();
    unsafe { libc::setrlimit(libc::RLIMIT_NOFILE, &old) };
    out
}

/// Enumerated fault sweep: one request kind against a fresh server, with k = 0, 1, 2, ... free
/// descriptor numbers until the request succeeds (every allocation depth fails exactly once),
/// then quiescence and the table / descriptor comparison.
const SWEEP_KINDS: &[&str] = &["lookup", "open", "opendir", "create-new", "create-existing", "create-on-dir", "readdirplus", "mkdir", "mknod", "symlink", "link", "read-nohandle", "destroy-init", "getattr", "setattr-size"];

fn sweep(args: &Args, rep: &mut Report, idx: u64, base: &str, r: &mut Rng) {
    let kind = SWEEP_KINDS[((idx / 4) % SWEEP_KINDS.len() as u64) as usize];
    let sc = Scratch::new(base, &format!("c15s-{}-{}", args.shard, idx));
    let dir = sc.sub("export");
    populate(&dir, r);
    let ifh = r.chance(1, 2);
    let no_open = kind == "read-nohandle" || r.chance(1, 4);
    let no_opendir = r.chance(1, 4);
    let mut cfg = base_config(&dir);
    cfg.inode_file_handles = ifh;
    cfg.no_open = no_open;
    cfg.no_opendir = no_opendir;
    cfg.cache_policy = if no_open { CachePolicy::Always } else { CachePolicy::Auto };
    let cfg_desc = format!("sweep:{} no_open={} no_opendir={} inode_file_handles={}", kind, no_open, no_opendir, ifh);
    let mut kc = Kc::new(mk_pt(cfg, u64::MAX));
    let base_fds = fd_count();
    let base_list = fd_list();
    let base_stats = kc.pt.fs.verif_stats();
    // prelude without faults
    let f0 = kc.lookup(1, b"f0").map(|e| e.nodeid).unwrap_or(0);
    let d0 = kc.lookup(1, b"d0").map(|e| e.nodeid).unwrap_or(0);
    let mut depth_reached = 0usize;
    let mut errnos: Vec<i32> = Vec::new();
    for k in 0..10usize {
        let res: Result<(), i32> = with_free_slots(k, || match kind {
            "lookup" => kc.lookup(d0, b"e1").map(|_| ()),
            "open" => {
                if kc.no_open {
                    Ok(())
                } else {
                    kc.open(f0, libc::O_RDWR as u32, false).map(|_| ())
                }
            }
            "opendir" => {
                if kc.no_opendir {
                    Ok(())
                } else {
                    kc.open(d0, 0, true).map(|_| ())
                }
            }
            "create-new" => kc.create(d0, format!("new{}", k).as_bytes(), libc::O_RDWR as u32, 0o644).map(|_| ()),
            "create-existing" => kc.create(1, b"f1", libc::O_RDWR as u32, 0o644).map(|_| ()),
            "create-on-dir" => match kc.create(1, b"d1", libc::O_RDWR as u32, 0o644) {
                Err(e) if e == libc::EISDIR => Ok(()),
                other => other.map(|_| ()),
            },
            "readdirplus" => {
                let fh = if kc.no_opendir { Ok(0) } else { kc.open(d0, 0, true) };
                match fh {
                    Ok(fh) => kc.readdirplus(d0, fh, 0, 4096).map(|_| ()),
                    Err(e) => Err(e),
                }
            }
            "mkdir" => kc.mkdir(d0, format!("nd{}", k).as_bytes(), 0o755).map(|_| ()),
            "mknod" => kc.mknod(d0, format!("nn{}", k).as_bytes(), libc::S_IFREG | 0o644, 0).map(|_| ()),
            "symlink" => kc.symlink(d0, format!("ns{}", k).as_bytes(), b"e0").map(|_| ()),
            "link" => kc.link(f0, d0, format!("nl{}", k).as_bytes()).map(|_| ()),
            "read-nohandle" => kc.pt.conn.read(f0, 0, 0, 16, 0).map(|_| ()),
            "getattr" => kc.pt.conn.getattr(f0, None).map(|_| ()),
            "setattr-size" => kc.pt.conn.setattr(f0, vkit::klayout::kconst("FATTR_SIZE"), &[("size", 5)]).map(|_| ()),
            _ => {
                let _ = kc.pt.conn.destroy();
                let r = kc.pt.conn.init(33, u64::MAX).map(|_| ());
                kc.handles.clear();
                kc.nlookup.clear();
                r
            }
        });
        rep.eval();
        let e = res.err().unwrap_or(0);
        errnos.push(e);
        rep.key(&format!("sweep|{}|k{}|errno{}|ifh{}", kind, k, e, ifh));
        depth_reached = k;
        if e == 0 {
            break;
        }
    }
    rep.count("sweeps", 1);
    rep.count(&format!("sweep:{}:max-depth-{}", kind, depth_reached), 1);
    kc.quiesce();
    let fds = fd_count();
    let stats = kc.pt.fs.verif_stats();
    let mut verdict = None;
    if stats.0 > base_stats.0 || stats.1 > base_stats.1 || stats.2 > base_stats.2 {
        verdict = Some((format!("C15:sweep-tables-not-empty:{}", kind), format!("(inodes, handles, cookies) = {:?} at quiescence, fresh server {:?}; errno per depth {:?}", stats, base_stats, errnos)));
    } else if fds > base_fds {
        let now = fd_list();
        let extra: Vec<&String> = now.iter().filter(|x| !base_list.contains(x)).collect();
        verdict = Some((format!("C15:sweep-fd-leak:{}", kind), format!("{} descriptors at quiescence, {} at baseline; new: {:?}; errno per depth {:?}", fds, base_fds, extra, errnos)));
    }
    if let Some((sig, why)) = verdict {
        rep.violation(&sig, idx, J::obj(vec![("why", J::s(why)), ("config", J::s(&cfg_desc)), ("history_tail", J::A(kc.tail(30).iter().map(J::s).collect()))]));
    } else if rep.want_sample() && idx % 8 == 0 {
        rep.sample(J::obj(vec![("config", J::s(&cfg_desc)), ("errno_per_free_slot_count", J::A(errnos.iter().map(|e| J::I(*e as i64)).collect()))]));
    }
}

pub fn run(args: &Args, rep: &mut Report) {
    let base = args.get("scratch").unwrap_or("/verif/scratch/adhoc").to_string();
    for idx in args.indices() {
        if rep.too_many() {
            break;
        }
        let mut r = Rng::derive(args.seed, "C15", idx, 0);
        if idx % 4 == 0 {
            rep.begin(idx, "fault-sweep");
            sweep(args, rep, idx, &base, &mut r);
            continue;
        }
        rep.begin(idx, "handle-history");
        let sc = Scratch::new(&base, &format!("c15-{}-{}", args.shard, idx));
        let dir = sc.sub("export");
        populate(&dir, &mut r);
        let no_open = r.chance(1, 3);
        let no_opendir = r.chance(1, 3);
        let ifh = r.chance(1, 2);
        let mut cfg = base_config(&dir);
        cfg.no_open = no_open;
        cfg.no_opendir = no_opendir;
        cfg.inode_file_handles = ifh;
        cfg.cache_policy = if no_open { CachePolicy::Always } else { cache_policy(&mut r) };
        let cfg_desc = format!("no_open={} no_opendir={} inode_file_handles={}", no_open, no_opendir, ifh);
        let before_server = fd_count();
        let pt = mk_pt(cfg, u64::MAX);
        let mut kc = Kc::new(pt);
        let base_fds = fd_count();
        let base_list = fd_list();
        let base_stats = kc.pt.fs.verif_stats();
        let mut verdict: Option<(String, String)> = None;
        let names: Vec<&[u8]> = vec![b"f0", b"f1", b"f2", b"f3", b"d0", b"d1", b"sl", b"fifo", b"noperm", b"missing", b"newfile", b"e0", b"e3", b"sub"];
        let nops = r.range(20, 90);
        let mut injected = 0u64;
        let mut emfile_seen = 0u64;
        let mut known: Vec<u64> = vec![1];
        for _ in 0..nops {
            let ino = *r.pick(&known);
            let name = *r.pick(&names);
            let k = if r.chance(1, 4) { Some(r.below(4) as usize) } else { None };
            let op = r.below(16);
            let live = kc.handles.clone();
            let mut errno_of: Option<i32> = None;
            let mut body = |kc: &mut Kc, r: &mut Rng| -> Option<(String, String)> {
                match op {
                    0..=2 => {
                        match kc.lookup(ino, name) {
                            Ok(e) if e.nodeid != 0 => known.push(e.nodeid),
                            Err(e) => errno_of = Some(e),
                            _ => {}
                        }
                        None
                    }
                    3 | 4 => {
                        if kc.no_open {
                            return None;
                        }
                        let fl = *r.pick(&[libc::O_RDONLY, libc::O_WRONLY, libc::O_RDWR, libc::O_RDONLY | libc::O_DIRECTORY, libc::O_RDWR | libc::O_APPEND]);
                        match kc.open(ino, fl as u32, false) {
                            Ok(fh) => {
                                if live.iter().any(|(_, h, _)| *h == fh) {
                                    return Some(("C15:duplicate-handle".into(), format!("open returned handle {} which is still in use", fh)));
                                }
                            }
                            Err(e) => errno_of = Some(e),
                        }
                        None
                    }
                    5 => {
                        if kc.no_opendir {
                            return None;
                        }
                        match kc.open(ino, libc::O_RDONLY as u32, true) {
                            Ok(fh) => {
                                if live.iter().any(|(_, h, _)| *h == fh) {
                                    return Some(("C15:duplicate-handle".into(), format!("opendir returned handle {} which is still in use", fh)));
                                }
                            }
                            Err(e) => errno_of = Some(e),
                        }
                        None
                    }
                    6 | 7 => {
                        // CREATE: new name, existing file, existing directory, O_EXCL on existing, as non-root
                        let fl = *r.pick(&[libc::O_RDWR, libc::O_WRONLY | libc::O_EXCL, libc::O_RDONLY, libc::O_RDWR | libc::O_TRUNC]);
                        if r.chance(1, 4) {
                            kc.pt.conn.as_user(1000, 1000);
                        }
                        let res = kc.create(ino, name, fl as u32, 0o644);
                        kc.pt.conn.as_user(0, 0);
                        match res {
                            Ok((e, fh)) => {
                                known.push(e.nodeid);
                                if !kc.no_open && live.iter().any(|(_, h, _)| *h == fh) {
                                    return Some(("C15:duplicate-handle".into(), format!("create returned handle {} which is still in use", fh)));
                                }
                            }
                            Err(e) => errno_of = Some(e),
                        }
                        None
                    }
                    8 | 9 => {
                        // I/O on a live handle, and the same handle with a wrong inode
                        if let Some((hino, fh, isdir)) = live.first().copied().or(live.last().copied()) {
                            if isdir {
                                let a = kc.pt.conn.readdir(hino, fh, 0, 4096, r.chance(1, 2));
                                kc.trace.push(format!("readdir({:#x}, fh={}) -> {:?}", hino, fh, a.as_ref().map(|v| v.len())));
                                // plus-entries are references
                                if let Ok(v) = &a {
                                    for d in v {
                                        if let Some(e) = &d.entry {
                                            let e = e.clone();
                                            kc.got_entry(&e);
                                            known.push(e.nodeid);
                                        }
                                    }
                                }
                            } else {
                                let a = kc.pt.conn.read(hino, fh, 0, 64, libc::O_RDONLY as u32);
                                kc.trace.push(format!("read({:#x}, fh={}) -> {:?}", hino, fh, a.as_ref().map(|v| v.len())));
                            }
                            let other = known.iter().copied().find(|x| *x != hino).unwrap_or(hino + 1);
                            let b = if isdir { kc.pt.conn.readdir(other, fh, 0, 4096, false).map(|_| ()) } else { kc.pt.conn.read(other, fh, 0, 64, 0).map(|_| ()) };
                            kc.trace.push(format!("{}({:#x} [wrong inode], fh={}) -> {:?}", if isdir { "readdir" } else { "read" }, other, fh, b));
                            if k.is_none() && b != Err(libc::EBADF) {
                                return Some((
                                    "C15:handle-wrong-inode".into(),
                                    format!("handle {} was opened on inode {:#x}; using it with inode {:#x} answered {:?} instead of EBADF", fh, hino, other, b),
                                ));
                            }
                            // a RELEASE naming the handle together with a wrong inode must not end the handle
                            if k.is_none() && other != hino && r.chance(1, 2) {
                                let probe = |kc: &mut Kc| -> Result<(), i32> {
                                    if isdir { kc.pt.conn.readdir(hino, fh, 0, 4096, false).map(|_| ()) } else { kc.pt.conn.read(hino, fh, 0, 64, libc::O_RDONLY as u32).map(|_| ()) }
                                };
                                let before = probe(kc);
                                let rel = kc.pt.conn.release(other, fh, 0, isdir);
                                let after = probe(kc);
                                kc.trace.push(format!("release({:#x} [wrong inode], fh={}) -> {:?}; use of ({:#x}, fh={}) before {:?}, after {:?}", other, fh, rel, hino, fh, before, after));
                                if before.is_ok() && after.is_err() {
                                    return Some((
                                        "C15:wrong-inode-release-ended-handle".into(),
                                        format!("RELEASE of handle {} with inode {:#x} (it was opened on {:#x}) answered {:?}; afterwards the handle answers {:?} on its own inode", fh, other, hino, rel, after),
                                    ));
                                }
                            }
                        }
                        None
                    }
                    10 | 11 => {
                        // RELEASE, then the handle must be dead
                        if live.is_empty() {
                            return None;
                        }
                        let (hino, fh, isdir) = live[r.below(live.len() as u64) as usize];
                        if kc.release(hino, fh, isdir).is_ok() && k.is_none() {
                            let b = if isdir { kc.pt.conn.readdir(hino, fh, 0, 4096, false).map(|_| ()) } else { kc.pt.conn.read(hino, fh, 0, 64, 0).map(|_| ()) };
                            kc.trace.push(format!("use-after-release({:#x}, fh={}) -> {:?}", hino, fh, b));
                            if b != Err(libc::EBADF) {
                                return Some(("C15:use-after-release".into(), format!("handle {} of inode {:#x} answered {:?} after it was released", fh, hino, b)));
                            }
                        }
                        None
                    }
                    12 => {
                        // handle-less I/O and listing under the zero-message switches
                        if kc.no_open {
                            let a = kc.pt.conn.read(ino, 0, 0, 64, libc::O_RDONLY as u32);
                            kc.trace.push(format!("read-nohandle({:#x}) -> {:?}", ino, a.as_ref().map(|v| v.len())));
                        }
                        if kc.no_opendir {
                            let plus = r.chance(1, 2);
                            let a = kc.pt.conn.readdir(ino, 0, 0, *r.pick(&[200u32, 4096]), plus);
                            kc.trace.push(format!("readdir-nohandle({:#x}, plus={}) -> {:?}", ino, plus, a.as_ref().map(|v| v.len())));
                            if let Ok(v) = &a {
                                for d in v {
                                    if let Some(e) = &d.entry {
                                        let e = e.clone();
                                        kc.got_entry(&e);
                                        known.push(e.nodeid);
                                    }
                                }
                            }
                        }
                        None
                    }
                    13 => {
                        let c = kc.count(ino);
                        if ino != 1 && c > 0 {
                            kc.forget(ino, r.range(1, c));
                        }
                        None
                    }
                    14 => {
                        let _ = kc.pt.conn.getattr(ino, live.iter().find(|(i, _, _)| *i == ino).map(|(_, h, _)| *h));
                        None
                    }
                    _ => {
                        if r.chance(1, 4) {
                            // DESTROY + re-INIT: everything the client held is void afterwards
                            let _ = kc.pt.conn.destroy();
                            let _ = kc.pt.conn.init(33, u64::MAX);
                            kc.trace.push("DESTROY; INIT".into());
                            kc.handles.clear();
                            kc.nlookup.clear();
                            known.clear();
                            known.push(1);
                        }
                        None
                    }
                }
            };
            let res = match k {
                Some(k) => {
                    injected += 1;
                    kc.trace.push(format!("-- next request runs with {} free descriptor slot(s)", k));
                    with_free_slots(k, || body(&mut kc, &mut r))
                }
                None => body(&mut kc, &mut r),
            };
            if errno_of == Some(libc::EMFILE) || errno_of == Some(libc::ENFILE) {
                emfile_seen += 1;
            }
            rep.eval();
            rep.key(&format!("op{}|fault{:?}|errno{:?}|{}", op, k, errno_of, cfg_desc));
            if let Some(v) = res {
                verdict = Some(v);
                break;
            }
            if known.len() > 60 {
                known.dedup();
                known.truncate(60);
            }
        }
        rep.count("histories", 1);
        rep.count("requests_with_injected_fd_exhaustion", injected);
        rep.count("emfile_replies_observed", emfile_seen);
        if verdict.is_none() {
            // ---- quiescence
            kc.quiesce();
            let fds = fd_count();
            let stats = kc.pt.fs.verif_stats();
            // no MORE than a freshly started server (a failed re-initialisation may leave it with less)
            if stats.0 > base_stats.0 || stats.1 > base_stats.1 || stats.2 > base_stats.2 {
                verdict = Some((
                    "C15:tables-not-empty".into(),
                    format!(
                        "after releasing every handle and forgetting every inode the server holds (inodes, handles, cookies) = {:?}, a fresh server holds {:?}; client references left: {:?}",
                        stats,
                        base_stats,
                        kc.nlookup.iter().filter(|(_, v)| **v > 0).collect::<Vec<_>>()
                    ),
                ));
            } else if fds > base_fds {
                let now = fd_list();
                let extra: Vec<&String> = now.iter().filter(|x| !base_list.contains(x)).collect();
                let sig = if extra.iter().any(|x| x.ends_with("->/") || x.contains("(deleted)") == false && extra.len() == 1 && ifh) && ifh { "C15:fd-leak:inode-file-handles" } else { "C15:fd-leak" };
                verdict = Some((sig.into(), format!("{} descriptors open at quiescence, {} right after INIT ({} before the server existed); new: {:?}", fds, base_fds, before_server, extra)));
            }
        }
        if let Some((sig, why)) = verdict {
            rep.violation(&sig, idx, J::obj(vec![("why", J::s(why)), ("config", J::s(&cfg_desc)), ("history_tail", J::A(kc.tail(40).iter().map(J::s).collect()))]));
        } else if rep.want_sample() {
            rep.sample(J::obj(vec![("config", J::s(&cfg_desc)), ("history_head", J::A(kc.trace.iter().take(14).map(J::s).collect())), ("fds_at_baseline", J::U(base_fds as u64))]));
        }
    }
}

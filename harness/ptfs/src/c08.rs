//! C08 — an inode stays valid exactly as long as the client holds lookup references to it.
//! Client model: per inode number the count of entries delivered minus forgotten. Continuous
//! comparison with the server's count (hook), GETATTR validity, the number <-> host file
//! bijection, stable numbers across forget/re-lookup, and a hook-free drain at the end.
use std::collections::{BTreeMap, BTreeSet};
use std::fs;
use std::os::unix::fs::MetadataExt;
use std::path::Path;

use vkit::json::J;
use vkit::prng::Rng;
use vkit::run::{Args, Report};

use crate::env::*;
use crate::kc::Kc;

fn populate(root: &Path, r: &mut Rng) {
    for i in 0..4 {
        write_file(&root.join(format!("f{}", i)), &r.bytes(10 + 50 * i), 0o644);
    }
    fs::create_dir_all(root.join("d0/sub")).unwrap();
    fs::create_dir_all(root.join("d1")).unwrap();
    for i in 0..5 {
        write_file(&root.join(format!("d0/e{}", i)), b"x", 0o644);
    }
    fs::hard_link(root.join("f0"), root.join("hl0")).unwrap();
    fs::hard_link(root.join("f0"), root.join("d0/hl1")).unwrap();
    std::os::unix::fs::symlink("f1", root.join("sl")).unwrap();
}

fn live_host_inos(root: &Path) -> BTreeSet<u64> {
    snapshot(root).values().map(|n| n.ino).collect()
}

const NAMES: &[&[u8]] = &[b"f0", b"f1", b"f2", b"f3", b"hl0", b"hl1", b"d0", b"d1", b"sub", b"sl", b"e0", b"e1", b"e4", b"n0", b"n1", b"n2", b"missing", b".", b".."];

struct M {
    /// host ino -> inode number last handed out for it (while the file exists)
    ever: BTreeMap<u64, u64>,
    dirs: Vec<u64>,
    all: Vec<u64>,
    /// numbers whose file lost its last name while tracked by file handle (no descriptor pins
    /// the host inode, which may be reused): the statement does not cover them any more
    detached: BTreeSet<u64>,
}

type Fail = (String, String);

fn note_entry(kc: &mut Kc, m: &mut M, e: &vkit::client::EntryV, what: &str) -> Result<(), Fail> {
    if e.nodeid == 0 {
        return Ok(());
    }
    let h = e.attr.ino;
    // one host file <-> one valid number
    for (n, hh) in kc.host_ino.iter() {
        if *n != e.nodeid && *hh == h && kc.count(*n) > 0 && !m.detached.contains(n) {
            return Err((
                format!("C08:two-numbers-one-file:{}", what),
                format!("{} returned inode number {:#x} for host inode {}, but {:#x} (still referenced {} times) denotes the same host inode", what, e.nodeid, h, n, kc.count(*n)),
            ));
        }
    }
    if let Some(prev) = m.ever.get(&h) {
        if *prev != e.nodeid {
            return Err((
                format!("C08:number-changed:{}", what),
                format!("host inode {} was known as {:#x}; {} now returned {:#x} although the file was not removed in between", h, prev, what, e.nodeid),
            ));
        }
    }
    m.ever.insert(h, e.nodeid);
    if m.detached.remove(&e.nodeid) {
        // the number now denotes a new file (host inode reuse under file-handle tracking): the
        // references to the vanished file went away with its object
        kc.nlookup.insert(e.nodeid, 1);
    }
    if !m.all.contains(&e.nodeid) {
        m.all.push(e.nodeid);
    }
    if e.attr.mode & libc::S_IFMT == libc::S_IFDIR && !m.dirs.contains(&e.nodeid) {
        m.dirs.push(e.nodeid);
    }
    Ok(())
}

fn audit(kc: &mut Kc, m: &M, r: &mut Rng, when: &str) -> Result<(), Fail> {
    for n in m.all.iter().copied().filter(|n| *n != 1 && !m.detached.contains(n)) {
        let want = kc.count(n);
        let got = kc.pt.fs.verif_refcount(n);
        let ok = if want == 0 { got.is_none() } else { got == Some(want) };
        if !ok {
            return Err((
                if got.unwrap_or(0) > want { "C08:refcount-too-high".to_string() } else { "C08:refcount-too-low".to_string() },
                format!("{}: inode {:#x}: the client holds {} reference(s) (entries delivered minus forgotten) but the server counts {:?}", when, n, want, got),
            ));
        }
    }
    if kc.pt.fs.verif_refcount(1).is_none() {
        return Err(("C08:root-invalid".into(), format!("{}: the root inode stopped resolving", when)));
    }
    // validity as the client sees it, on a sample
    for _ in 0..3 {
        let n = *r.pick(&m.all);
        if m.detached.contains(&n) {
            continue;
        }
        let a = kc.pt.conn.getattr(n, None);
        let valid = n == 1 || kc.count(n) > 0;
        match (valid, &a) {
            (true, Err(e)) => return Err(("C08:valid-inode-unusable".into(), format!("{}: GETATTR on {:#x} (client holds {} references) failed with errno {}", when, n, kc.count(n), e))),
            (false, Ok(_)) => return Err(("C08:forgotten-inode-usable".into(), format!("{}: GETATTR on {:#x} succeeded although the client holds no reference", when, n))),
            (false, Err(e)) if *e != libc::EBADF => return Err(("C08:forgotten-inode-errno".into(), format!("{}: GETATTR on forgotten {:#x} answered errno {} instead of EBADF", when, n, e))),
            (true, Ok(at)) => {
                if let Some(h) = kc.host_ino.get(&n) {
                    if at.ino != *h {
                        return Err(("C08:inode-denotes-other-file".into(), format!("{}: {:#x} was handed out for host inode {} but GETATTR now reports host inode {}", when, n, h, at.ino)));
                    }
                }
            }
            _ => {}
        }
    }
    Ok(())
}

pub fn run(args: &Args, rep: &mut Report) {
    let base = args.get("scratch").unwrap_or("/verif/scratch/adhoc").to_string();
    for idx in args.indices() {
        if rep.too_many() {
            break;
        }
        let mut r = Rng::derive(args.seed, "C08", idx, 0);
        rep.begin(idx, "refcount-history");
        let sc = Scratch::new(&base, &format!("c08-{}-{}", args.shard, idx));
        let dir = sc.sub("export");
        populate(&dir, &mut r);
        let ifh = r.chance(1, 2);
        let uhi = r.chance(1, 2);
        let mut cfg = base_config(&dir);
        cfg.inode_file_handles = ifh;
        cfg.use_host_ino = uhi;
        let cfg_desc = format!("inode_file_handles={} use_host_ino={}", ifh, uhi);
        let mut kc = Kc::new(mk_pt(cfg, u64::MAX));
        let mut m = M { ever: BTreeMap::new(), dirs: vec![1], all: vec![1], detached: BTreeSet::new() };
        let mut verdict: Option<Fail> = None;
        let nops = r.range(40, 160);
        let mut newname = 0u32;
        for step in 0..nops {
            let parent = *r.pick(&m.dirs);
            let name: Vec<u8> = r.pick(NAMES).to_vec();
            let op = r.below(20);
            let mut mutated = false;
            let res: Result<(), Fail> = (|| {
                match op {
                    0..=5 => {
                        if let Ok(e) = kc.lookup(parent, &name) {
                            note_entry(&mut kc, &mut m, &e, "lookup")?;
                        }
                    }
                    6 => {
                        // CREATE: new name / existing file / existing directory
                        let nm = if r.chance(1, 2) {
                            newname += 1;
                            format!("c{}", newname).into_bytes()
                        } else {
                            name.clone()
                        };
                        if let Ok((e, fh)) = kc.create(parent, &nm, libc::O_RDWR as u32, 0o644) {
                            note_entry(&mut kc, &mut m, &e, "create")?;
                            let _ = kc.release(e.nodeid, fh, false);
                            mutated = true;
                        }
                    }
                    7 => {
                        newname += 1;
                        if let Ok(e) = kc.mkdir(parent, format!("m{}", newname).as_bytes(), 0o755) {
                            note_entry(&mut kc, &mut m, &e, "mkdir")?;
                        }
                    }
                    8 => {
                        newname += 1;
                        if let Ok(e) = kc.mknod(parent, format!("k{}", newname).as_bytes(), libc::S_IFREG | 0o600, 0) {
                            note_entry(&mut kc, &mut m, &e, "mknod")?;
                        }
                    }
                    9 => {
                        newname += 1;
                        if let Ok(e) = kc.symlink(parent, format!("s{}", newname).as_bytes(), b"f2") {
                            note_entry(&mut kc, &mut m, &e, "symlink")?;
                        }
                    }
                    10 => {
                        let src = *r.pick(&m.all);
                        if src != 1 && kc.count(src) > 0 {
                            newname += 1;
                            if let Ok(e) = kc.link(src, parent, format!("l{}", newname).as_bytes()) {
                                if e.nodeid != src {
                                    return Err(("C08:link-new-number".into(), format!("LINK of {:#x} returned another number {:#x} for the same file", src, e.nodeid)));
                                }
                                note_entry(&mut kc, &mut m, &e, "link")?;
                            }
                        }
                    }
                    11 | 12 => {
                        // READDIRPLUS with a small buffer: only delivered entries count
                        let size = *r.pick(&[170u32, 200, 340, 400, 700, 4096]);
                        if r.chance(1, 3) {
                            // plain READDIR hands out no references at all
                            if let Ok(fh) = kc.open(parent, 0, true) {
                                let v = kc.pt.conn.readdir(parent, fh, 0, size, false);
                                kc.trace.push(format!("readdir({:#x}, size={}) -> {:?}", parent, size, v.as_ref().map(|x| x.len())));
                                let _ = kc.release(parent, fh, true);
                            }
                        } else if let Ok(fh) = kc.open(parent, 0, true) {
                            let mut off = 0u64;
                            for _ in 0..r.range(1, 4) {
                                match kc.readdirplus(parent, fh, off, size) {
                                    Ok(v) => {
                                        if v.is_empty() {
                                            break;
                                        }
                                        off = v.last().unwrap().off;
                                        for d in &v {
                                            if let Some(e) = &d.entry {
                                                note_entry(&mut kc, &mut m, e, "readdirplus")?;
                                            }
                                        }
                                    }
                                    Err(_) => break,
                                }
                            }
                            let _ = kc.release(parent, fh, true);
                        }
                    }
                    13 | 14 => {
                        let n = *r.pick(&m.all);
                        let c = kc.count(n);
                        if n != 1 && c > 0 {
                            // single, partial, or over-counted
                            let k = match r.below(4) {
                                0 => c,
                                1 => c + r.range(1, 3),
                                _ => r.range(1, c),
                            };
                            kc.forget(n, k);
                        } else if n == 1 {
                            kc.forget(1, r.range(1, 5)); // the root can never be forgotten
                        }
                    }
                    15 => {
                        let mut list = Vec::new();
                        for _ in 0..r.range(1, 4) {
                            let n = *r.pick(&m.all);
                            let c = kc.count(n);
                            if n != 1 && c > 0 && !list.iter().any(|(x, _)| *x == n) {
                                list.push((n, r.range(1, c)));
                            }
                        }
                        if !list.is_empty() {
                            kc.batch_forget(&list);
                        }
                    }
                    16 => {
                        // rename keeps the number valid and denoting the same file
                        newname += 1;
                        let to = format!("r{}", newname).into_bytes();
                        let held = kc.pt.conn.lookup(parent, &name).ok();
                        if let Some(e) = &held {
                            kc.got_entry(e);
                            note_entry(&mut kc, &mut m, e, "lookup")?;
                        }
                        let np = *r.pick(&m.dirs);
                        let ok = kc.pt.conn.rename(parent, &name, np, &to, None).is_ok();
                        kc.trace.push(format!("rename({:#x}/{:?} -> {:#x}/{:?}) -> {}", parent, String::from_utf8_lossy(&name), np, String::from_utf8_lossy(&to), ok));
                        if ok {
                            mutated = true;
                            if let Some(e) = held {
                                if e.nodeid != 0 {
                                    let again = kc.lookup(np, &to);
                                    match again {
                                        Ok(e2) => {
                                            if e2.nodeid != e.nodeid {
                                                return Err(("C08:rename-changed-number".into(), format!("after rename the file known as {:#x} is looked up as {:#x}", e.nodeid, e2.nodeid)));
                                            }
                                            note_entry(&mut kc, &mut m, &e2, "lookup-after-rename")?;
                                        }
                                        Err(er) => return Err(("C08:rename-lost-inode".into(), format!("lookup of the renamed file failed with {}", er))),
                                    }
                                }
                            }
                        }
                    }
                    17 => {
                        // unlink while referenced: with descriptor-tracked inodes the number keeps working
                        let held = kc.lookup(parent, &name).ok();
                        if let Some(e) = &held {
                            note_entry(&mut kc, &mut m, e, "lookup")?;
                        }
                        let isdir = held.as_ref().map(|e| e.attr.mode & libc::S_IFMT == libc::S_IFDIR).unwrap_or(false);
                        let ok = if isdir { kc.pt.conn.rmdir(parent, &name).is_ok() } else { kc.pt.conn.unlink(parent, &name).is_ok() };
                        kc.trace.push(format!("{}({:#x}/{:?}) -> {}", if isdir { "rmdir" } else { "unlink" }, parent, String::from_utf8_lossy(&name), ok));
                        if ok {
                            mutated = true;
                            if let (Some(e), false) = (held, ifh) {
                                if e.nodeid != 0 {
                                    match kc.pt.conn.getattr(e.nodeid, None) {
                                        Ok(a) => {
                                            if a.ino != e.attr.ino {
                                                return Err(("C08:unlinked-inode-denotes-other-file".into(), format!("{:#x} reports host inode {} after unlink, was {}", e.nodeid, a.ino, e.attr.ino)));
                                            }
                                        }
                                        Err(er) => return Err(("C08:unlinked-inode-unusable".into(), format!("GETATTR on {:#x} failed with {} after its name was unlinked although the client still holds {} references", e.nodeid, er, kc.count(e.nodeid)))),
                                    }
                                }
                            }
                        }
                    }
                    _ => {
                        // a failing entry-returning request must not leave a reference behind
                        if let Ok((e, fh)) = kc.create(parent, b"d1", libc::O_RDWR as u32, 0o644) {
                            note_entry(&mut kc, &mut m, &e, "create")?;
                            let _ = kc.release(e.nodeid, fh, false);
                            mutated = true;
                        }
                        if let Ok(e) = kc.mkdir(parent, b"f0", 0o755) {
                            note_entry(&mut kc, &mut m, &e, "mkdir")?;
                        }
                    }
                }
                Ok(())
            })();
            rep.eval();
            rep.key(&format!("op{}|{}|refs{}", op, cfg_desc, m.all.iter().filter(|n| kc.count(**n) > 1).count().min(3)));
            if let Err(f) = res {
                verdict = Some(f);
                break;
            }
            if mutated {
                let live = live_host_inos(&dir);
                m.ever.retain(|h, _| live.contains(h));
                if ifh {
                    for (n, h) in kc.host_ino.iter() {
                        if !live.contains(h) {
                            m.detached.insert(*n);
                        }
                    }
                }
            }
            if step % 3 == 0 || step + 1 == nops {
                if let Err(f) = audit(&mut kc, &m, &mut r, "during the history") {
                    verdict = Some(f);
                    break;
                }
            }
        }
        rep.count("histories", 1);
        // ---- hook-free drain: count-1 forgets keep it valid, the last one invalidates it
        if verdict.is_none() {
            for n in m.all.clone() {
                let c = kc.count(n);
                if n == 1 || c == 0 {
                    continue;
                }
                if m.detached.contains(&n) {
                    kc.forget(n, c);
                    continue;
                }
                if c > 1 {
                    kc.forget(n, c - 1);
                    if let Err(e) = kc.pt.conn.getattr(n, None) {
                        verdict = Some(("C08:drain-early-invalid".into(), format!("inode {:#x}: after forgetting {} of {} references GETATTR fails with {}", n, c - 1, c, e)));
                        break;
                    }
                }
                kc.forget(n, 1);
                match kc.pt.conn.getattr(n, None) {
                    Err(e) if e == libc::EBADF => {}
                    other => {
                        verdict = Some(("C08:drain-still-valid".into(), format!("inode {:#x}: all {} references forgotten but GETATTR answers {:?}", n, c, other.map(|a| a.ino))));
                        break;
                    }
                }
                rep.count("inodes_drained", 1);
            }
            if verdict.is_none() {
                let st = kc.pt.fs.verif_stats();
                if st.0 != 1 {
                    verdict = Some(("C08:resources-not-released".into(), format!("{} inode objects alive after every reference was forgotten", st.0)));
                }
                if kc.pt.conn.getattr(1, None).is_err() {
                    verdict = Some(("C08:root-invalid".into(), "root unusable after the drain".into()));
                }
            }
        }
        if let Some((sig, why)) = verdict {
            rep.violation(&sig, idx, J::obj(vec![("why", J::s(why)), ("config", J::s(&cfg_desc)), ("history_tail", J::A(kc.tail(40).iter().map(J::s).collect()))]));
        } else if rep.want_sample() {
            rep.sample(J::obj(vec![("config", J::s(&cfg_desc)), ("history_head", J::A(kc.trace.iter().take(14).map(J::s).collect()))]));
        }
    }
}

//! C05 — passthrough requests have the effect and result of the same host system call.
//! Differential: directory A is exported by Server<PassthroughFs>, directory B is the shadow.
//! Each syscall-level operation is decomposed into FUSE requests the way the Linux client does
//! (component-wise LOOKUP, client-side decisions the VFS takes before calling the filesystem,
//! CREATE only on a negative dentry, OPEN/RELEASE pairing or handle-less I/O) and compared with the
//! plain system call on B: errno, attributes, data, link targets, xattrs; then the two trees.
use std::collections::BTreeMap;
use std::ffi::CString;
use std::fs;
use std::os::unix::ffi::OsStrExt;
use std::os::unix::fs::MetadataExt;
use std::path::{Path, PathBuf};

use fuse_backend_rs::passthrough::CachePolicy;
use vkit::client::AttrV;
use vkit::json::J;
use vkit::klayout::{get, kconst};
use vkit::prng::Rng;
use vkit::run::{Args, Report};

use crate::env::*;
use crate::kc::Kc;

type Fail = (String, String);

// "..data" and "..." are ordinary names (a Kubernetes volume has "..data"); only "." and ".." are special
const NAMES: &[&str] = &["a", "b", "c", "d", "e", "f", "..data", "..."];

fn cpath(p: &Path) -> CString {
    CString::new(p.as_os_str().as_bytes()).unwrap()
}
fn errno() -> i32 {
    std::io::Error::last_os_error().raw_os_error().unwrap_or(0)
}

/// Random initial tree, created identically in both roots.
fn populate(roots: &[&Path], r: &mut Rng) {
    let mut plan: Vec<(String, char, Vec<u8>, u32)> = Vec::new();
    let mut dirs: Vec<String> = vec!["".into()];
    for _ in 0..r.range(6, 14) {
        let parent = r.pick(&dirs).clone();
        if parent.matches('/').count() >= 2 {
            continue;
        }
        let name = *r.pick(NAMES);
        let rel = if parent.is_empty() { name.to_string() } else { format!("{}/{}", parent, name) };
        if plan.iter().any(|p| p.0 == rel) {
            continue;
        }
        match r.below(10) {
            0..=3 => {
                let n = r.below(300) as usize;
                plan.push((rel, 'f', r.bytes(n), *r.pick(&[0o644u32, 0o600, 0o666, 0o755, 0o4755, 0o2644])));
            }
            4..=6 => {
                plan.push((rel.clone(), 'd', vec![], *r.pick(&[0o755u32, 0o777, 0o700, 0o1777])));
                dirs.push(rel);
            }
            7 => plan.push((rel, 'l', r.pick(&["a", "b", "../a", "c/d", "nonexistent"]).as_bytes().to_vec(), 0)),
            8 => plan.push((rel, 'p', vec![], 0o644)),
            _ => plan.push((rel, 'c', vec![], 0o600)),
        }
    }
    for root in roots {
        for (rel, kind, data, mode) in &plan {
            let p = root.join(rel);
            match kind {
                'f' => write_file(&p, data, *mode),
                'd' => {
                    fs::create_dir(&p).unwrap();
                    fs::set_permissions(&p, std::os::unix::fs::PermissionsExt::from_mode(*mode)).unwrap();
                }
                'l' => std::os::unix::fs::symlink(std::ffi::OsStr::from_bytes(data), &p).unwrap(),
                'p' => unsafe {
                    libc::mkfifo(cpath(&p).as_ptr(), *mode);
                },
                _ => unsafe {
                    libc::mknod(cpath(&p).as_ptr(), libc::S_IFCHR | *mode, libc::makedev(1, 3));
                },
            }
        }
    }
}

/// compare two tree snapshots (names, types, modes, owners, sizes, content, link targets, xattrs,
/// rdev, hard-link partition)
fn compare_trees(a: &Path, b: &Path) -> Result<usize, String> {
    let (sa, sb) = (snapshot(a), snapshot(b));
    for (k, na) in &sa {
        match sb.get(k) {
            None => return Err(format!("{} exists in the export but not in the reference tree", k)),
            Some(nb) => {
                let same = na.kind == nb.kind
                    && na.mode == nb.mode
                    && na.uid == nb.uid
                    && na.gid == nb.gid
                    && (na.kind == 'd' || na.nlink == nb.nlink)
                    && na.size == nb.size
                    && na.content == nb.content
                    && na.xattrs == nb.xattrs
                    && (!(na.kind == 'c' || na.kind == 'b') || na.rdev == nb.rdev);
                if !same {
                    return Err(format!("{} differs: export {:?} vs reference {:?}", k, strip(na), strip(nb)));
                }
            }
        }
    }
    if let Some(k) = sb.keys().find(|k| !sa.contains_key(*k)) {
        return Err(format!("{} exists in the reference tree but not in the export", k));
    }
    // hard-link partition
    let part = |s: &BTreeMap<String, Node>| {
        let mut m: BTreeMap<u64, Vec<String>> = BTreeMap::new();
        for (k, n) in s {
            if n.kind != 'd' {
                m.entry(n.ino).or_default().push(k.clone());
            }
        }
        let mut v: Vec<Vec<String>> = m.into_values().filter(|v| v.len() > 1).collect();
        v.sort();
        v
    };
    if part(&sa) != part(&sb) {
        return Err(format!("hard-link groups differ: export {:?} vs reference {:?}", part(&sa), part(&sb)));
    }
    Ok(sa.len())
}

fn strip(n: &Node) -> String {
    format!("kind={} mode={:#o} uid={} gid={} nlink={} size={} content={:x} rdev={:#x} xattrs={:?}", n.kind, n.mode, n.uid, n.gid, n.nlink, n.size, n.content, n.rdev, n.xattrs.iter().map(|(k, v)| (String::from_utf8_lossy(k).to_string(), v.len())).collect::<Vec<_>>())
}

struct A {
    kc: Kc,
}

impl A {
    /// component-wise walk like the Linux client; intermediate components must be directories
    fn walk(&mut self, rel: &str) -> Result<(u64, AttrV), i32> {
        let mut cur = 1u64;
        let mut attr = self.kc.pt.conn.getattr(1, None)?;
        if rel.is_empty() {
            return Ok((1, attr));
        }
        let comps: Vec<&str> = rel.split('/').collect();
        for (i, c) in comps.iter().enumerate() {
            if attr.mode & libc::S_IFMT != libc::S_IFDIR {
                return Err(libc::ENOTDIR);
            }
            let e = self.kc.lookup(cur, c.as_bytes())?;
            if e.nodeid == 0 {
                return Err(libc::ENOENT);
            }
            cur = e.nodeid;
            attr = e.attr;
            let _ = i;
        }
        Ok((cur, attr))
    }
    fn parent_of(&mut self, rel: &str) -> Result<(u64, String), i32> {
        let (dir, leaf) = match rel.rfind('/') {
            Some(k) => (&rel[..k], &rel[k + 1..]),
            None => ("", rel),
        };
        let (pino, pattr) = self.walk(dir)?;
        if pattr.mode & libc::S_IFMT != libc::S_IFDIR {
            return Err(libc::ENOTDIR);
        }
        Ok((pino, leaf.to_string()))
    }
}

/// path of `rel` for the reference system calls: relative to the shadow root, which is the cwd
fn refp(rel: &str) -> PathBuf {
    if rel.is_empty() {
        PathBuf::from(".")
    } else {
        PathBuf::from(".").join(rel)
    }
}

fn lstat(p: &Path) -> Result<fs::Metadata, i32> {
    fs::symlink_metadata(p).map_err(|e| e.raw_os_error().unwrap_or(0))
}

fn attr_matches(a: &AttrV, m: &fs::Metadata) -> Result<(), String> {
    let is_dir = m.file_type().is_dir();
    let checks: [(&str, u64, u64); 7] = [
        ("mode", a.mode as u64, m.mode() as u64),
        ("nlink", if is_dir { 0 } else { a.nlink as u64 }, if is_dir { 0 } else { m.nlink() }),
        ("uid", a.uid as u64, m.uid() as u64),
        ("gid", a.gid as u64, m.gid() as u64),
        ("size", if is_dir { 0 } else { a.size }, if is_dir { 0 } else { m.size() }),
        ("rdev", a.rdev as u64, m.rdev() & 0xffff_ffff),
        ("blksize", a.blksize as u64, m.blksize()),
    ];
    for (n, x, y) in checks {
        if x != y {
            return Err(format!("{}: reply {} ({:#o}) vs host {} ({:#o})", n, x, x, y, y));
        }
    }
    Ok(())
}

/// run `f` with the calling thread's fs credentials switched like the server does for creating ops
fn as_user<T>(uid: u32, gid: u32, f: impl FnOnce() -> T) -> T {
    unsafe {
        if gid != 0 {
            libc::syscall(libc::SYS_setresgid, -1i32, gid, -1i32);
        }
        if uid != 0 {
            libc::syscall(libc::SYS_setresuid, -1i32, uid, -1i32);
        }
    }
    let out = f();
    unsafe {
        if uid != 0 {
            libc::syscall(libc::SYS_setresuid, -1i32, 0u32, -1i32);
        }
        if gid != 0 {
            libc::syscall(libc::SYS_setresgid, -1i32, 0u32, -1i32);
        }
    }
    out
}

fn creds_intact() -> Result<(), String> {
    if geteuid() != 0 || getegid() != 0 {
        return Err(format!("serving thread left with euid={} egid={}", geteuid(), getegid()));
    }
    match caps::has_cap(None, caps::CapSet::Effective, caps::Capability::CAP_FSETID) {
        Ok(true) => Ok(()),
        other => Err(format!("CAP_FSETID no longer effective on the serving thread ({:?})", other)),
    }
}

struct Ctx<'a> {
    a: A,
    ra: PathBuf,
    rb: PathBuf,
    trace: Vec<String>,
    cfg_desc: String,
    xattr: bool,
    rep: &'a mut Report,
}

fn cmp_errno(op: &str, ea: i32, eb: i32, what: &str) -> Result<(), Fail> {
    if ea != eb {
        return Err((format!("C05:errno:{}", op), format!("{}: request answered errno {}, the system call {}", what, ea, eb)));
    }
    Ok(())
}

fn pick_path(r: &mut Rng, snap: &BTreeMap<String, Node>, wants: &[&str]) -> String {
    let want = *r.pick(wants);
    // want: "file" | "dir" | "symlink" | "special" | "any" | "new" | "missing-parent" | "through-file"
    let of_kind = |k: char| -> Vec<&String> { snap.iter().filter(|(p, n)| n.kind == k && p.as_str() != ".").map(|(p, _)| p).collect() };
    let dirs: Vec<String> = snap.iter().filter(|(_, n)| n.kind == 'd').map(|(p, _)| if p == "." { String::new() } else { p.clone() }).collect();
    let join = |d: &str, n: &str| if d.is_empty() { n.to_string() } else { format!("{}/{}", d, n) };
    match want {
        "file" => of_kind('f').first().map(|_| (*r.pick(&of_kind('f'))).clone()).unwrap_or_else(|| "nofile".into()),
        "dir" => {
            let v = of_kind('d');
            if v.is_empty() {
                String::new()
            } else {
                (*r.pick(&v)).clone()
            }
        }
        "symlink" => of_kind('l').first().map(|_| (*r.pick(&of_kind('l'))).clone()).unwrap_or_else(|| "nolink".into()),
        "special" => {
            let mut v = of_kind('p');
            v.extend(of_kind('c'));
            if v.is_empty() {
                "nospecial".into()
            } else {
                (*r.pick(&v)).clone()
            }
        }
        "new" => {
            let d = r.pick(&dirs).clone();
            join(&d, NAMES[r.below(NAMES.len() as u64) as usize])
        }
        "missing-parent" => format!("zz/{}", r.pick(NAMES)),
        "through-file" => {
            let f = of_kind('f');
            if f.is_empty() {
                "zz/x".into()
            } else {
                format!("{}/x", r.pick(&f))
            }
        }
        _ => {
            let all: Vec<&String> = snap.keys().filter(|p| p.as_str() != ".").collect();
            if all.is_empty() {
                "a".into()
            } else {
                (*r.pick(&all)).clone()
            }
        }
    }
}

/// A non-root caller is only used for pure creations (name absent, parent an existing directory):
/// everywhere else the Linux client itself checks permissions before the filesystem is asked.
fn caller_for(r: &mut Rng, snap: &BTreeMap<String, Node>, rel: &str) -> (u32, u32) {
    let parent = match rel.rfind('/') {
        Some(k) => rel[..k].to_string(),
        None => ".".to_string(),
    };
    // every directory on the way must be searchable by others: the server works from directory
    // descriptors and never walks the path with the caller's credentials, the Linux client does
    // that walk (and its permission checks) itself
    let mut chain_ok = true;
    let mut cur = String::new();
    for comp in parent.split('/').filter(|c| !c.is_empty() && *c != ".") {
        if !cur.is_empty() {
            cur.push('/');
        }
        cur.push_str(comp);
        if snap.get(&cur).map(|n| n.mode & 0o005 != 0o005).unwrap_or(true) {
            chain_ok = false;
        }
    }
    let pure_creation = chain_ok && !rel.is_empty() && !snap.contains_key(rel) && snap.get(&parent).map(|n| n.kind == 'd').unwrap_or(false);
    if pure_creation {
        *r.pick(&[(0u32, 0u32), (1000, 1000), (1001, 1000)])
    } else {
        (0, 0)
    }
}

fn step(c: &mut Ctx, r: &mut Rng) -> Result<&'static str, Fail> {
    let snap = snapshot(&c.rb);
    let op = r.below(22);
    let no_open = c.a.kc.no_open;
    match op {
        0 | 1 => {
            // lstat of any kind of path
            let rel = pick_path(r, &snap, &["any", "any", "new", "missing-parent", "through-file"]);
            let ra = c.a.walk(&rel);
            let rb = lstat(&refp(&rel));
            c.trace.push(format!("lstat({}) -> {:?} / {:?}", rel, ra.as_ref().map(|x| x.1.mode), rb.as_ref().map(|m| m.mode())));
            match (ra, rb) {
                (Ok((_, a)), Ok(m)) => attr_matches(&a, &m).map_err(|e| ("C05:attr:lookup".to_string(), format!("lstat({}): {}", rel, e)))?,
                (Err(ea), Err(eb)) => cmp_errno("lookup", ea, eb, &format!("lstat({})", rel))?,
                (x, y) => return Err(("C05:errno:lookup".into(), format!("lstat({}): request {:?} vs system call {:?}", rel, x.map(|v| v.0), y.map(|m| m.ino())))),
            }
            Ok("lstat")
        }
        2 | 3 | 4 => {
            // open(+create) / read / write / fsync / close
            let kind = *r.pick(&["file", "file", "new", "dir", "missing-parent", "through-file"]);
            let rel = pick_path(r, &snap, &[kind]);
            let acc = *r.pick(&[libc::O_RDONLY, libc::O_WRONLY, libc::O_RDWR]);
            let mut flags = acc;
            for f in [libc::O_CREAT, libc::O_EXCL, libc::O_TRUNC, libc::O_APPEND] {
                if r.chance(1, 3) {
                    flags |= f;
                }
            }
            if flags & libc::O_EXCL != 0 {
                flags |= libc::O_CREAT;
            }
            let mode = *r.pick(&[0o644u32, 0o600, 0o666, 0o4755]);
            let (uid, gid) = caller_for(r, &snap, &rel);
            let dlen = r.below(200) as usize;
            let data = r.bytes(dlen);
            let off = r.below(400);
            // symlinks as final component are left to lstat/readlink (open would follow them)
            if rel.is_empty() || snap.get(&rel).map(|n| n.kind != 'f' && n.kind != 'd').unwrap_or(false) {
                return Ok("skip");
            }
            // ---- reference
            let pb = refp(&rel);
            let fdb = as_user(if flags & libc::O_CREAT != 0 { uid } else { 0 }, if flags & libc::O_CREAT != 0 { gid } else { 0 }, || unsafe {
                libc::open(cpath(&pb).as_ptr(), flags | libc::O_NOFOLLOW | libc::O_CLOEXEC, mode)
            });
            let eb = if fdb < 0 { errno() } else { 0 };
            // ---- FUSE side, the way the client does it
            c.a.kc.pt.conn.as_user(uid, gid);
            let res_a: Result<(u64, u64, bool), i32> = (|| {
                let (pino, leaf) = c.a.parent_of(&rel)?;
                let existing = c.a.kc.lookup(pino, leaf.as_bytes());
                match existing {
                    Ok(e) if e.nodeid != 0 => {
                        if flags & libc::O_CREAT != 0 && flags & libc::O_EXCL != 0 {
                            return Err(libc::EEXIST);
                        }
                        let isdir = e.attr.mode & libc::S_IFMT == libc::S_IFDIR;
                        if isdir && (acc != libc::O_RDONLY || flags & (libc::O_CREAT | libc::O_TRUNC) != 0) {
                            return Err(libc::EISDIR);
                        }
                        if isdir {
                            // a directory opened read-only goes through OPENDIR
                            if c.a.kc.no_opendir {
                                return Ok((e.nodeid, 0, true));
                            }
                            let fh = c.a.kc.open(e.nodeid, (flags & !(libc::O_CREAT | libc::O_EXCL | libc::O_TRUNC)) as u32, true)?;
                            return Ok((e.nodeid, fh, true));
                        }
                        let fh = if no_open { 0 } else { c.a.kc.open(e.nodeid, (flags & !(libc::O_CREAT | libc::O_EXCL | libc::O_TRUNC)) as u32, false)? };
                        if flags & libc::O_TRUNC != 0 {
                            // no atomic O_TRUNC negotiated: the client truncates with SETATTR; for the
                            // truncation that belongs to open() it does not pass the file handle
                            // (fs/fuse/dir.c: ATTR_OPEN => file = NULL)
                            c.a.kc.pt.conn.setattr(e.nodeid, kconst("FATTR_SIZE"), &[("size", 0)])?;
                        }
                        Ok((e.nodeid, fh, false))
                    }
                    Ok(_) | Err(libc::ENOENT) => {
                        if flags & libc::O_CREAT == 0 {
                            return Err(libc::ENOENT);
                        }
                        let (e, fh) = c.a.kc.create(pino, leaf.as_bytes(), flags as u32, mode)?;
                        Ok((e.nodeid, fh, false))
                    }
                    Err(e) => Err(e),
                }
            })();
            c.a.kc.pt.conn.as_user(0, 0);
            c.trace.push(format!("open({}, {:#o}, {:#o}) as {}:{} -> {:?} / errno {}", rel, flags, mode, uid, gid, res_a, eb));
            let ea = res_a.as_ref().err().copied().unwrap_or(0);
            // O_TRUNC|O_RDONLY is undefined: excluded from comparison of content by not generating writes
            cmp_errno("open", ea, eb, &format!("open({}, {:#o})", rel, flags))?;
            if let Ok((ino, fh, isdir)) = res_a {
                if !isdir {
                    // read
                    let da = c.a.kc.pt.conn.read(ino, fh, off, 256, flags as u32);
                    let mut bufb = vec![0u8; 256];
                    let nb = unsafe { libc::pread(fdb, bufb.as_mut_ptr() as *mut _, 256, off as i64) };
                    let eb2 = if nb < 0 { errno() } else { 0 };
                    // under writeback / no_open the server opens read-write, so a write-only open can be read
                    let lenient = c.a.kc.pt.enabled & kconst("FUSE_WRITEBACK_CACHE") != 0 || no_open;
                    match (&da, nb) {
                        (Ok(d), n) if n >= 0 => {
                            if d[..] != bufb[..n as usize] {
                                return Err(("C05:data:read".into(), format!("read({}, off {}) returned {} bytes, pread {} bytes, or different content", rel, off, d.len(), n)));
                            }
                        }
                        (Err(e), n) if n < 0 => cmp_errno("read", *e, eb2, &format!("read({})", rel))?,
                        (Ok(_), _) if lenient => {}
                        (x, n) => return Err(("C05:errno:read".into(), format!("read({}) on a handle opened {:#o}: request {:?}, pread returned {} (errno {})", rel, flags, x.as_ref().map(|d| d.len()), n, eb2))),
                    }
                    // write (the client computes the offset for O_APPEND)
                    if acc != libc::O_RDONLY {
                        let cur = fs::metadata(&pb).map(|m| m.len()).unwrap_or(0);
                        // ... usually: a third of the appends carry a stale offset (the file grew behind the client's back),
                        // which pwrite() on an O_APPEND descriptor ignores. Not under write-back caching, where appending is
                        // the client's business and the server strips O_APPEND.
                        let wb_on = c.a.kc.pt.enabled & kconst("FUSE_WRITEBACK_CACHE") != 0;
                        let woff = if flags & libc::O_APPEND != 0 && (wb_on || r.chance(2, 3)) { cur } else { off };
                        let wa = c.a.kc.pt.conn.write(ino, fh, woff, &data, 0, flags as u32);
                        let wb = unsafe { libc::pwrite(fdb, data.as_ptr() as *const _, data.len(), woff as i64) };
                        c.trace.push(format!("  write({} bytes at {}) -> {:?} / {}", data.len(), woff, wa, wb));
                        match (&wa, wb) {
                            (Ok(n), m) if m >= 0 && *n as isize == m => {}
                            (Err(_), m) if m < 0 => {}
                            (x, m) => return Err(("C05:result:write".into(), format!("write({}, {} bytes at {}): request {:?}, pwrite {}", rel, data.len(), woff, x, m))),
                        }
                        if r.chance(1, 3) {
                            let fa = c.a.kc.pt.conn.fsync(ino, fh, r.chance(1, 2), false).err().unwrap_or(0);
                            let fb = if unsafe { libc::fsync(fdb) } < 0 { errno() } else { 0 };
                            cmp_errno("fsync", fa, fb, "fsync")?;
                        }
                        if r.chance(1, 3) {
                            // fallocate
                            let mode = *r.pick(&[0i32, libc::FALLOC_FL_KEEP_SIZE, libc::FALLOC_FL_PUNCH_HOLE | libc::FALLOC_FL_KEEP_SIZE, libc::FALLOC_FL_PUNCH_HOLE]);
                            let (fo, fl) = (r.below(300), r.range(1, 300));
                            let fa = c.a.kc.pt.conn.fallocate(ino, fh, mode as u32, fo, fl).err().unwrap_or(0);
                            let fb = if unsafe { libc::fallocate(fdb, mode, fo as i64, fl as i64) } < 0 { errno() } else { 0 };
                            c.trace.push(format!("  fallocate(mode {:#x}, {}, {}) -> {} / {}", mode, fo, fl, fa, fb));
                            cmp_errno("fallocate", fa, fb, &format!("fallocate({}, mode {:#x})", rel, mode))?;
                        }
                    }
                    if !no_open && r.chance(1, 3) {
                        // lseek SEEK_DATA / SEEK_HOLE
                        let wh = *r.pick(&[libc::SEEK_DATA, libc::SEEK_HOLE]);
                        let so = r.below(400);
                        let la = c.a.kc.pt.conn.lseek(ino, fh, so, wh as u32);
                        let lb = unsafe { libc::lseek(fdb, so as i64, wh) };
                        let elb = if lb < 0 { errno() } else { 0 };
                        match (la, lb) {
                            (Ok(x), y) if y >= 0 && x == y as u64 => {}
                            (Err(e), y) if y < 0 => cmp_errno("lseek", e, elb, "lseek")?,
                            (x, y) => return Err(("C05:result:lseek".into(), format!("lseek({}, {}, whence {}): request {:?}, system call {}", rel, so, wh, x, y))),
                        }
                    }
                    if !no_open {
                        let _ = c.a.kc.pt.conn.flush(ino, fh);
                        let _ = c.a.kc.release(ino, fh, false);
                    }
                } else if !c.a.kc.no_opendir {
                    let _ = c.a.kc.release(ino, fh, true);
                }
            }
            if fdb >= 0 {
                unsafe { libc::close(fdb) };
            }
            Ok("open")
        }
        5 | 6 | 7 | 8 => {
            // creating operations: mkdir / mknod / symlink
            let rel = pick_path(r, &snap, &["new", "new", "any", "missing-parent", "through-file"]);
            let pb = refp(&rel);
            let (uid, gid) = caller_for(r, &snap, &rel);
            let mode = *r.pick(&[0o755u32, 0o700, 0o777, 0o2755, 0o644]);
            let which = op - 5;
            let target = r.pick(&["a", "../b", "c/d/e", "x"]).to_string();
            let (dev_mode, rdev) = *r.pick(&[(libc::S_IFIFO, 0u64), (libc::S_IFREG, 0), (libc::S_IFCHR, libc::makedev(1, 5)), (libc::S_IFSOCK, 0)]);
            let eb = as_user(uid, gid, || unsafe {
                let rc = match which {
                    0 | 1 => libc::mkdir(cpath(&pb).as_ptr(), mode),
                    2 => libc::mknod(cpath(&pb).as_ptr(), dev_mode | (mode & 0o777), rdev),
                    _ => libc::symlink(CString::new(target.clone()).unwrap().as_ptr(), cpath(&pb).as_ptr()),
                };
                if rc < 0 {
                    errno()
                } else {
                    0
                }
            });
            c.a.kc.pt.conn.as_user(uid, gid);
            let res_a: Result<AttrV, i32> = (|| {
                let (pino, leaf) = c.a.parent_of(&rel)?;
                // the VFS looks the name up first: a positive dentry means EEXIST without calling the filesystem
                if let Ok(e) = c.a.kc.lookup(pino, leaf.as_bytes()) {
                    if e.nodeid != 0 {
                        return Err(libc::EEXIST);
                    }
                }
                let e = match which {
                    0 | 1 => c.a.kc.mkdir(pino, leaf.as_bytes(), mode)?,
                    2 => c.a.kc.mknod(pino, leaf.as_bytes(), dev_mode | (mode & 0o777), rdev as u32)?,
                    _ => c.a.kc.symlink(pino, leaf.as_bytes(), target.as_bytes())?,
                };
                Ok(e.attr)
            })();
            c.a.kc.pt.conn.as_user(0, 0);
            let opn = ["mkdir", "mkdir", "mknod", "symlink"][which as usize];
            c.trace.push(format!("{}({}) as {}:{} -> {:?} / errno {}", opn, rel, uid, gid, res_a.as_ref().map(|a| a.mode), eb));
            cmp_errno(opn, res_a.as_ref().err().copied().unwrap_or(0), eb, &format!("{}({}) as {}:{}", opn, rel, uid, gid))?;
            if let Ok(a) = res_a {
                let m = lstat(&pb).map_err(|e| ("harness:lstat".to_string(), format!("{}", e)))?;
                attr_matches(&a, &m).map_err(|e| (format!("C05:attr:{}", opn), format!("{}({}) as {}:{}: {}", opn, rel, uid, gid, e)))?;
            }
            Ok(opn)
        }
        9 => {
            // link
            let src = pick_path(r, &snap, &["file", "file", "symlink", "special", "dir"]);
            let dst = pick_path(r, &snap, &["new", "new", "any", "missing-parent"]);
            if src.is_empty() || dst.is_empty() {
                return Ok("skip");
            }
            let eb = if unsafe { libc::linkat(libc::AT_FDCWD, cpath(&refp(&src)).as_ptr(), libc::AT_FDCWD, cpath(&refp(&dst)).as_ptr(), 0) } < 0 { errno() } else { 0 };
            let res_a: Result<AttrV, i32> = (|| {
                let (sino, sattr) = c.a.walk(&src)?;
                if sattr.mode & libc::S_IFMT == libc::S_IFDIR {
                    return Err(libc::EPERM);
                }
                let (pino, leaf) = c.a.parent_of(&dst)?;
                if let Ok(e) = c.a.kc.lookup(pino, leaf.as_bytes()) {
                    if e.nodeid != 0 {
                        return Err(libc::EEXIST);
                    }
                }
                Ok(c.a.kc.link(sino, pino, leaf.as_bytes())?.attr)
            })();
            c.trace.push(format!("link({} -> {}) -> {:?} / errno {}", src, dst, res_a.as_ref().map(|a| a.nlink), eb));
            // argument order of the two walks may differ from the kernel's: only compare success and the dominant errors
            let ea = res_a.as_ref().err().copied().unwrap_or(0);
            if (ea == 0) != (eb == 0) {
                return Err(("C05:errno:link".into(), format!("link({} -> {}): request errno {}, system call errno {}", src, dst, ea, eb)));
            }
            if let Ok(a) = res_a {
                let m = lstat(&refp(&dst)).map_err(|e| ("harness:lstat".to_string(), format!("{}", e)))?;
                attr_matches(&a, &m).map_err(|e| ("C05:attr:link".to_string(), format!("link({} -> {}): {}", src, dst, e)))?;
            }
            Ok("link")
        }
        10 | 11 => {
            // unlink / rmdir: the VFS decides type mismatches itself
            let rel = pick_path(r, &snap, &["any", "any", "dir", "new", "through-file"]);
            let rmdir = op == 11;
            if rel.is_empty() {
                return Ok("skip");
            }
            let pb = refp(&rel);
            let eb = if unsafe { if rmdir { libc::rmdir(cpath(&pb).as_ptr()) } else { libc::unlink(cpath(&pb).as_ptr()) } } < 0 { errno() } else { 0 };
            let res_a: Result<(), i32> = (|| {
                let (pino, leaf) = c.a.parent_of(&rel)?;
                let e = c.a.kc.lookup(pino, leaf.as_bytes())?;
                if e.nodeid == 0 {
                    return Err(libc::ENOENT);
                }
                let isdir = e.attr.mode & libc::S_IFMT == libc::S_IFDIR;
                if rmdir && !isdir {
                    return Err(libc::ENOTDIR);
                }
                if !rmdir && isdir {
                    return Err(libc::EISDIR);
                }
                if rmdir {
                    c.a.kc.pt.conn.rmdir(pino, leaf.as_bytes())
                } else {
                    c.a.kc.pt.conn.unlink(pino, leaf.as_bytes())
                }
            })();
            c.trace.push(format!("{}({}) -> {:?} / errno {}", if rmdir { "rmdir" } else { "unlink" }, rel, res_a, eb));
            cmp_errno(if rmdir { "rmdir" } else { "unlink" }, res_a.err().unwrap_or(0), eb, &format!("remove {}", rel))?;
            Ok(if rmdir { "rmdir" } else { "unlink" })
        }
        12 | 13 => {
            // rename with flags
            let src = pick_path(r, &snap, &["any", "any", "dir", "new"]);
            let dst = pick_path(r, &snap, &["new", "any", "dir", "missing-parent"]);
            let fl = *r.pick(&[0u32, 0, libc::RENAME_NOREPLACE, libc::RENAME_EXCHANGE]);
            if src.is_empty() || dst.is_empty() {
                return Ok("skip");
            }
            let rcb = unsafe { libc::syscall(libc::SYS_renameat2, libc::AT_FDCWD, cpath(&refp(&src)).as_ptr(), libc::AT_FDCWD, cpath(&refp(&dst)).as_ptr(), fl) };
            let eb = if rcb < 0 { errno() } else { 0 };
            // errors the VFS raises before the filesystem is asked
            let vfs_decides = matches!(eb, libc::ENOENT | libc::ENOTDIR | libc::EINVAL | libc::EISDIR | libc::EEXIST | libc::EBUSY) && eb != 0;
            let res_a: Result<(), i32> = (|| {
                let (spino, sleaf) = c.a.parent_of(&src)?;
                let se = c.a.kc.lookup(spino, sleaf.as_bytes())?;
                if se.nodeid == 0 {
                    return Err(libc::ENOENT);
                }
                let (dpino, dleaf) = c.a.parent_of(&dst)?;
                if vfs_decides {
                    return Err(eb);
                }
                c.a.kc.pt.conn.rename(spino, sleaf.as_bytes(), dpino, dleaf.as_bytes(), if fl == 0 && r.chance(1, 2) { None } else { Some(fl) })
            })();
            c.trace.push(format!("rename({} -> {}, flags {}) -> {:?} / errno {}", src, dst, fl, res_a, eb));
            let ea = res_a.err().unwrap_or(0);
            if vfs_decides {
                if ea == 0 {
                    return Err(("C05:errno:rename".into(), format!("rename({} -> {}): request succeeded, system call errno {}", src, dst, eb)));
                }
            } else {
                cmp_errno("rename", ea, eb, &format!("rename({} -> {}, flags {})", src, dst, fl))?;
            }
            Ok("rename")
        }
        14 | 15 | 16 => {
            // setattr family on an existing object (as root; the client checks ownership itself)
            let rel = pick_path(r, &snap, &["file", "file", "dir", "any"]);
            let node = match snap.get(&rel) {
                Some(n) => n.clone(),
                None => return Ok("skip"),
            };
            let pb = refp(&rel);
            let (ino, _) = c.a.walk(&rel).map_err(|e| ("C05:errno:lookup".to_string(), format!("walk({}) failed with {} although the path exists", rel, e)))?;
            let which = r.below(4);
            let (ra, eb, label): (Result<AttrV, i32>, i32, &str) = match which {
                0 => {
                    if node.kind == 'l' {
                        return Ok("skip");
                    }
                    let m = *r.pick(&[0o600u32, 0o644, 0o755, 0o4755, 0o2775, 0o1777, 0o000]);
                    let eb = if unsafe { libc::chmod(cpath(&pb).as_ptr(), m) } < 0 { errno() } else { 0 };
                    (c.a.kc.pt.conn.setattr(ino, kconst("FATTR_MODE"), &[("mode", (node_type_bits(node.kind) | m) as u64)]), eb, "chmod")
                }
                1 => {
                    let (u, g) = *r.pick(&[(1000u32, 1000u32), (0, 0), (1001, 5), (u32::MAX, 7), (9, u32::MAX)]);
                    let eb = if unsafe { libc::lchown(cpath(&pb).as_ptr(), u, g) } < 0 { errno() } else { 0 };
                    let mut valid = 0;
                    if u != u32::MAX {
                        valid |= kconst("FATTR_UID");
                    }
                    if g != u32::MAX {
                        valid |= kconst("FATTR_GID");
                    }
                    (c.a.kc.pt.conn.setattr(ino, valid, &[("uid", u as u64), ("gid", g as u64)]), eb, "chown")
                }
                2 => {
                    if node.kind != 'f' {
                        return Ok("skip");
                    }
                    let sz = *r.pick(&[0u64, 1, 100, 5000, node.size, node.size + 1]);
                    let eb = if unsafe { libc::truncate(cpath(&pb).as_ptr(), sz as i64) } < 0 { errno() } else { 0 };
                    (c.a.kc.pt.conn.setattr(ino, kconst("FATTR_SIZE"), &[("size", sz)]), eb, "truncate")
                }
                _ => {
                    let (at, mt) = (r.below(2_000_000_000), r.below(2_000_000_000));
                    let (an, mn) = (r.below(1_000_000_000), r.below(1_000_000_000));
                    let ts = [libc::timespec { tv_sec: at as i64, tv_nsec: an as i64 }, libc::timespec { tv_sec: mt as i64, tv_nsec: mn as i64 }];
                    let eb = if unsafe { libc::utimensat(libc::AT_FDCWD, cpath(&pb).as_ptr(), ts.as_ptr(), libc::AT_SYMLINK_NOFOLLOW) } < 0 { errno() } else { 0 };
                    let ra = c.a.kc.pt.conn.setattr(ino, kconst("FATTR_ATIME") | kconst("FATTR_MTIME"), &[("atime", at), ("mtime", mt), ("atimensec", an), ("mtimensec", mn)]);
                    if let Ok(a) = &ra {
                        if a.mtime != mt || a.mtimensec as u64 != mn {
                            return Err(("C05:attr:utimens".into(), format!("utimens({}): asked mtime {}.{:09}, reply says {}.{:09}", rel, mt, mn, a.mtime, a.mtimensec)));
                        }
                        let ma = lstat(&c.ra.join(&rel)).map_err(|e| ("harness:lstat".to_string(), format!("{}", e)))?;
                        if ma.mtime() as u64 != mt || ma.mtime_nsec() as u64 != mn || ma.atime() as u64 != at {
                            return Err(("C05:effect:utimens".into(), format!("utimens({}): export file has mtime {}.{:09} atime {}, asked {}.{:09} / {}", rel, ma.mtime(), ma.mtime_nsec(), ma.atime(), mt, mn, at)));
                        }
                    }
                    (ra, eb, "utimens")
                }
            };
            c.trace.push(format!("{}({}) -> {:?} / errno {}", label, rel, ra.as_ref().map(|a| (a.mode, a.uid, a.gid, a.size)), eb));
            cmp_errno(label, ra.as_ref().err().copied().unwrap_or(0), eb, &format!("{}({})", label, rel))?;
            if let Ok(a) = ra {
                let m = lstat(&pb).map_err(|e| ("harness:lstat".to_string(), format!("{}", e)))?;
                attr_matches(&a, &m).map_err(|e| (format!("C05:attr:{}", label), format!("{}({}): {}", label, rel, e)))?;
            }
            Ok("setattr")
        }
        17 => {
            // readlink
            let rel = pick_path(r, &snap, &["symlink", "symlink", "file"]);
            let tb = fs::read_link(refp(&rel)).map(|p| p.as_os_str().as_bytes().to_vec()).map_err(|e| e.raw_os_error().unwrap_or(0));
            let ta: Result<Vec<u8>, i32> = (|| {
                let (ino, a) = c.a.walk(&rel)?;
                if a.mode & libc::S_IFMT != libc::S_IFLNK {
                    return Err(libc::EINVAL);
                }
                c.a.kc.pt.conn.readlink(ino)
            })();
            c.trace.push(format!("readlink({}) -> {:?} / {:?}", rel, ta.as_ref().map(|t| String::from_utf8_lossy(t).to_string()), tb.as_ref().map(|t| String::from_utf8_lossy(t).to_string())));
            if ta != tb {
                return Err(("C05:result:readlink".into(), format!("readlink({}): request {:?}, system call {:?}", rel, ta, tb)));
            }
            Ok("readlink")
        }
        18 | 19 => {
            // xattr operations on files and directories
            let rel = pick_path(r, &snap, &["file", "dir"]);
            if !snap.contains_key(&rel) && !rel.is_empty() {
                return Ok("skip");
            }
            let pb = refp(&rel);
            let (ino, _) = c.a.walk(&rel).map_err(|e| ("C05:errno:lookup".to_string(), format!("walk({}) failed with {}", rel, e)))?;
            let name = *r.pick(&["user.a", "user.b", "user.long-attribute-name"]);
            let cn = CString::new(name).unwrap();
            let vlen = r.below(60) as usize;
            let val = r.bytes(vlen);
            let which = r.below(4);
            if !c.xattr {
                let ea = c.a.kc.pt.conn.getxattr(ino, name.as_bytes(), 64).err().unwrap_or(0);
                if ea != libc::ENOSYS {
                    return Err(("C05:errno:xattr-disabled".into(), format!("xattr support is off but GETXATTR answered errno {}", ea)));
                }
                return Ok("xattr-off");
            }
            match which {
                0 => {
                    let fl = *r.pick(&[0, libc::XATTR_CREATE, libc::XATTR_REPLACE]);
                    let eb = if unsafe { libc::lsetxattr(cpath(&pb).as_ptr(), cn.as_ptr(), val.as_ptr() as *const _, val.len(), fl) } < 0 { errno() } else { 0 };
                    let ea = c.a.kc.pt.conn.setxattr(ino, name.as_bytes(), &val, fl as u32).err().unwrap_or(0);
                    c.trace.push(format!("setxattr({}, {}, {} bytes, flags {}) -> {} / {}", rel, name, val.len(), fl, ea, eb));
                    cmp_errno("setxattr", ea, eb, &format!("setxattr({}, {})", rel, name))?;
                }
                1 => {
                    let mut buf = vec![0u8; 256];
                    let nb = unsafe { libc::lgetxattr(cpath(&pb).as_ptr(), cn.as_ptr(), buf.as_mut_ptr() as *mut _, buf.len()) };
                    let eb = if nb < 0 { errno() } else { 0 };
                    let ra = c.a.kc.pt.conn.getxattr(ino, name.as_bytes(), 256);
                    c.trace.push(format!("getxattr({}, {}) -> {:?} / {}", rel, name, ra.as_ref().map(|v| v.as_ref().map(|x| x.len()).ok()), nb));
                    match ra {
                        Ok(Ok(v)) => {
                            if nb < 0 || v[..] != buf[..nb as usize] {
                                return Err(("C05:result:getxattr".into(), format!("getxattr({}, {}): request returned {} bytes, system call {}", rel, name, v.len(), nb)));
                            }
                        }
                        Err(e) => cmp_errno("getxattr", e, eb, &format!("getxattr({}, {})", rel, name))?,
                        _ => {}
                    }
                    // size probe
                    if let Ok(Err(sz)) = c.a.kc.pt.conn.getxattr(ino, name.as_bytes(), 0) {
                        let nb0 = unsafe { libc::lgetxattr(cpath(&pb).as_ptr(), cn.as_ptr(), std::ptr::null_mut(), 0) };
                        if nb0 >= 0 && sz as isize != nb0 {
                            return Err(("C05:result:getxattr-size".into(), format!("getxattr size probe: {} vs {}", sz, nb0)));
                        }
                    }
                }
                2 => {
                    let mut buf = vec![0u8; 1024];
                    let nb = unsafe { libc::llistxattr(cpath(&pb).as_ptr(), buf.as_mut_ptr() as *mut _, buf.len()) };
                    let ra = c.a.kc.pt.conn.listxattr(ino, 1024);
                    if let (Ok(Ok(v)), true) = (&ra, nb >= 0) {
                        let mut x: Vec<&[u8]> = v.split(|b| *b == 0).filter(|s| !s.is_empty()).collect();
                        let mut y: Vec<&[u8]> = buf[..nb as usize].split(|b| *b == 0).filter(|s| !s.is_empty()).collect();
                        x.sort();
                        y.sort();
                        if x != y {
                            return Err(("C05:result:listxattr".into(), format!("listxattr({}): names differ", rel)));
                        }
                    } else if ra.is_ok() != (nb >= 0) {
                        return Err(("C05:errno:listxattr".into(), format!("listxattr({}): request {:?}, system call {}", rel, ra.map(|_| ()), nb)));
                    }
                }
                _ => {
                    let eb = if unsafe { libc::lremovexattr(cpath(&pb).as_ptr(), cn.as_ptr()) } < 0 { errno() } else { 0 };
                    let ea = c.a.kc.pt.conn.removexattr(ino, name.as_bytes()).err().unwrap_or(0);
                    c.trace.push(format!("removexattr({}, {}) -> {} / {}", rel, name, ea, eb));
                    cmp_errno("removexattr", ea, eb, &format!("removexattr({}, {})", rel, name))?;
                }
            }
            Ok("xattr")
        }
        20 => {
            // statfs: the size fields that do not fluctuate
            let ra = c.a.kc.pt.conn.statfs(1).map_err(|e| ("C05:errno:statfs".to_string(), format!("statfs failed with {}", e)))?;
            let mut st: libc::statvfs64 = unsafe { std::mem::zeroed() };
            unsafe { libc::statvfs64(cpath(&refp("")).as_ptr(), &mut st) };
            let g = |f: &str| get(&ra, 0, "fuse_statfs_out", f).unwrap_or(0);
            if g("st.bsize") != st.f_bsize || g("st.frsize") != st.f_frsize || g("st.namelen") != st.f_namemax || g("st.blocks") != st.f_blocks {
                return Err(("C05:result:statfs".into(), format!("statfs: bsize {} frsize {} namelen {} blocks {} vs host {} {} {} {}", g("st.bsize"), g("st.frsize"), g("st.namelen"), g("st.blocks"), st.f_bsize, st.f_frsize, st.f_namemax, st.f_blocks)));
            }
            Ok("statfs")
        }
        _ => {
            // special files: looked up and stat'ed, OPEN on them is refused and leaves them untouched
            let rel = pick_path(r, &snap, &["special"]);
            if !snap.contains_key(&rel) {
                return Ok("skip");
            }
            let (ino, a) = c.a.walk(&rel).map_err(|e| ("C05:errno:lookup".to_string(), format!("walk({}) failed with {}", rel, e)))?;
            let m = lstat(&refp(&rel)).map_err(|e| ("harness:lstat".to_string(), format!("{}", e)))?;
            attr_matches(&a, &m).map_err(|e| ("C05:attr:special".to_string(), format!("lstat({}): {}", rel, e)))?;
            if !no_open {
                let res = c.a.kc.pt.conn.open(ino, (libc::O_RDWR | libc::O_NONBLOCK) as u32, false);
                c.trace.push(format!("open(special {}) -> {:?}", rel, res));
                match res {
                    Err(e) if e == libc::EBADF => {}
                    Ok((fh, _)) => {
                        let _ = c.a.kc.pt.conn.release(ino, fh, 0, false);
                        return Err(("C05:special-opened".into(), format!("OPEN on the special file {} succeeded", rel)));
                    }
                    Err(e) => return Err(("C05:errno:special-open".into(), format!("OPEN on the special file {} answered errno {} (EBADF expected)", rel, e))),
                }
            }
            Ok("special")
        }
    }
}

fn node_type_bits(k: char) -> u32 {
    match k {
        'd' => libc::S_IFDIR,
        'f' => libc::S_IFREG,
        'l' => libc::S_IFLNK,
        'p' => libc::S_IFIFO,
        'c' => libc::S_IFCHR,
        _ => 0,
    }
}

pub fn run(args: &Args, rep: &mut Report) {
    let base = args.get("scratch").unwrap_or("/verif/scratch/adhoc").to_string();
    for idx in args.indices() {
        if rep.too_many() {
            break;
        }
        let mut r = Rng::derive(args.seed, "C05", idx, 0);
        rep.begin(idx, "differential-history");
        let sc = Scratch::new(&base, &format!("c05-{}-{}", args.shard, idx));
        let (ra, rb) = (sc.sub("export"), sc.sub("shadow"));
        unsafe { libc::umask(0) };
        let mut pr = r.clone();
        populate(&[&ra, &rb], &mut pr);
        // configuration matrix, walked by index so that every combination comes up
        let bits = idx / 1 % 128;
        let no_open = bits & 1 != 0;
        let no_opendir = bits & 2 != 0;
        let ifh = bits & 4 != 0;
        let uhi = bits & 8 != 0;
        let writeback = bits & 16 != 0;
        let xattr = bits & 32 == 0;
        let pol = if no_open { CachePolicy::Always } else { [CachePolicy::Never, CachePolicy::Metadata, CachePolicy::Auto, CachePolicy::Always][((idx / 128) % 4) as usize].clone() };
        let mut cfg = base_config(&ra);
        cfg.no_open = no_open;
        cfg.no_opendir = no_opendir;
        cfg.inode_file_handles = ifh;
        cfg.use_host_ino = uhi;
        cfg.writeback = writeback;
        cfg.xattr = xattr;
        cfg.cache_policy = pol.clone();
        let cfg_desc = format!("no_open={} no_opendir={} inode_file_handles={} use_host_ino={} writeback={} xattr={} cache={:?}", no_open, no_opendir, ifh, uhi, writeback, xattr, pol);
        let kc = Kc::new(mk_pt(cfg, u64::MAX));
        std::env::set_current_dir(&rb).expect("chdir to the shadow root");
        let mut c = Ctx { a: A { kc }, ra: ra.clone(), rb: rb.clone(), trace: vec![], cfg_desc: cfg_desc.clone(), xattr, rep };
        let mut verdict: Option<Fail> = None;
        let nops = r.range(20, if args.tier == "thorough" { 200 } else { 80 });
        for _ in 0..nops {
            let res = step(&mut c, &mut r);
            c.rep.eval();
            match res {
                Err(f) => {
                    verdict = Some(f);
                    break;
                }
                Ok(op) => {
                    c.rep.count(&format!("op:{}", op), 1);
                    c.rep.key(&format!("{}|{}", op, c.cfg_desc));
                }
            }
            if let Err(e) = creds_intact() {
                verdict = Some(("C05:credentials".into(), format!("after `{}`: {}", c.trace.last().cloned().unwrap_or_default(), e)));
                break;
            }
            match compare_trees(&c.ra, &c.rb) {
                Ok(n) => c.rep.count("tree_nodes_compared", n as u64),
                Err(e) => {
                    verdict = Some(("C05:tree".into(), format!("after `{}`: {}", c.trace.last().cloned().unwrap_or_default(), e)));
                    break;
                }
            }
            if c.trace.len() > 300 {
                let keep = c.trace.split_off(200);
                c.trace = keep;
            }
        }
        c.a.kc.quiesce();
        let _ = std::env::set_current_dir("/");
        let trace = c.trace.clone();
        drop(c);
        rep.count("histories", 1);
        if let Some((sig, why)) = verdict {
            if sig.starts_with("harness:") {
                rep.inconclusive(&sig, J::s(why));
            } else {
                rep.violation(&sig, idx, J::obj(vec![("why", J::s(why)), ("config", J::s(&cfg_desc)), ("history_tail", J::A(trace.iter().rev().take(30).rev().map(J::s).collect()))]));
            }
        } else if rep.want_sample() {
            rep.sample(J::obj(vec![("config", J::s(&cfg_desc)), ("history_head", J::A(trace.iter().take(12).map(J::s).collect()))]));
        }
    }
}

// Included by c10.rs (`include!`): monitor self-check of C10's oracle.
//
// The reference union model is what C10 compares the crate's overlay against, so the model itself is
// compared here against the one implementation that defines the rules: the kernel's overlayfs. The
// same seeded universes and operation sequences as the C10 check are materialised a second time,
// mounted with `mount -t overlay`, driven with plain system calls, and after every operation the
// tree seen through the kernel mount (names, types, permission bits, sizes, contents, link targets)
// and the outcome class of the operation must equal the model's. The crate is not involved: a
// disagreement is reported as INCONCLUSIVE `model-vs-kernel:*` (the oracle is suspect), never as a
// violation of the property.
//
// Differences that are not disagreements: the kernel honours only `trusted.overlay.opaque` (the
// crate accepts three spellings; layers are re-tagged for the kernel), and a lower-only overlay
// needs two lower layers.

fn k_retag_opaque(root: &Path, spec: &BTreeMap<String, Spec>) {
    use std::ffi::CString;
    use std::os::unix::ffi::OsStrExt;
    for (n, s) in spec {
        if let Spec::Dir { opaque, children, .. } = s {
            let p = root.join(n);
            if let Some(x) = opaque {
                if *x != "trusted.overlay.opaque" {
                    let c = CString::new(p.as_os_str().as_bytes()).unwrap();
                    let old = CString::new(*x).unwrap();
                    let new = CString::new("trusted.overlay.opaque").unwrap();
                    unsafe {
                        libc::removexattr(c.as_ptr(), old.as_ptr());
                        let rc = libc::setxattr(c.as_ptr(), new.as_ptr(), b"y".as_ptr() as *const _, 1, 0);
                        assert_eq!(rc, 0, "setxattr trusted.overlay.opaque");
                    }
                }
            }
            k_retag_opaque(&p, children);
        }
    }
}

fn k_errno() -> i32 {
    std::io::Error::last_os_error().raw_os_error().unwrap_or(libc::EIO)
}

fn k_cstr(p: &Path) -> std::ffi::CString {
    use std::os::unix::ffi::OsStrExt;
    std::ffi::CString::new(p.as_os_str().as_bytes()).unwrap()
}

/// The operation with plain system calls under the kernel mount `m` (same decomposition and modes as `apply`).
fn k_apply(m: &Path, op: &Op, held: &mut BTreeMap<String, i32>) -> Result<(), i32> {
    let rc = |r: i32| if r < 0 { Err(k_errno()) } else { Ok(()) };
    if let Op::Unlink(p) = op {
        if let Some(fd) = held.remove(p) {
            unsafe { libc::close(fd) };
        }
    }
    match op {
        Op::OpenHold(p) => {
            let md = fs::symlink_metadata(m.join(p)).map_err(|e| e.raw_os_error().unwrap_or(libc::EIO))?;
            if md.is_dir() {
                return Err(libc::EISDIR);
            }
            if !md.is_file() {
                return Err(libc::EINVAL);
            }
            if !held.contains_key(p) {
                let fd = unsafe { libc::open(k_cstr(&m.join(p)).as_ptr(), libc::O_RDONLY | libc::O_NOFOLLOW) };
                if fd < 0 {
                    return Err(k_errno());
                }
                held.insert(p.clone(), fd);
            }
            Ok(())
        }
        Op::HeldChmod(p, perm) => match held.get(p) {
            Some(fd) => rc(unsafe { libc::fchmod(*fd, *perm) }),
            None => k_apply(m, &Op::Chmod(p.clone(), *perm), held),
        },
        Op::CloseHeld(p) => {
            if let Some(fd) = held.remove(p) {
                unsafe { libc::close(fd) };
            }
            Ok(())
        }
        Op::Create(p) => {
            let c = k_cstr(&m.join(p));
            let fd = unsafe { libc::open(c.as_ptr(), libc::O_RDWR | libc::O_CREAT | libc::O_EXCL, 0o644) };
            if fd < 0 {
                return Err(k_errno());
            }
            unsafe { libc::close(fd) };
            Ok(())
        }
        Op::Mkdir(p) => rc(unsafe { libc::mkdir(k_cstr(&m.join(p)).as_ptr(), 0o755) }),
        Op::Mknod(p) => rc(unsafe { libc::mknod(k_cstr(&m.join(p)).as_ptr(), libc::S_IFREG | 0o640, 0) }),
        Op::Symlink(p, t) => rc(unsafe { libc::symlink(std::ffi::CString::new(t.as_bytes()).unwrap().as_ptr(), k_cstr(&m.join(p)).as_ptr()) }),
        Op::Link(s, d) => rc(unsafe { libc::link(k_cstr(&m.join(s)).as_ptr(), k_cstr(&m.join(d)).as_ptr()) }),
        Op::Unlink(p) => rc(unsafe { libc::unlink(k_cstr(&m.join(p)).as_ptr()) }),
        Op::Rmdir(p) => rc(unsafe { libc::rmdir(k_cstr(&m.join(p)).as_ptr()) }),
        Op::Write(p, off, data) => {
            let md = fs::symlink_metadata(m.join(p)).map_err(|e| e.raw_os_error().unwrap_or(libc::EIO))?;
            if md.is_dir() {
                return Err(libc::EISDIR);
            }
            if !md.is_file() {
                return Err(libc::EINVAL);
            }
            let c = k_cstr(&m.join(p));
            let fd = unsafe { libc::open(c.as_ptr(), libc::O_RDWR | libc::O_NOFOLLOW) };
            if fd < 0 {
                return Err(k_errno());
            }
            let n = unsafe { libc::pwrite(fd, data.as_ptr() as *const _, data.len(), *off as i64) };
            let e = k_errno();
            unsafe { libc::close(fd) };
            if n < 0 {
                Err(e)
            } else {
                Ok(())
            }
        }
        Op::Fallocate(p, keep, off, len) => {
            let md = fs::symlink_metadata(m.join(p)).map_err(|e| e.raw_os_error().unwrap_or(libc::EIO))?;
            if md.is_dir() {
                return Err(libc::EISDIR);
            }
            if !md.is_file() {
                return Err(libc::EINVAL);
            }
            let c = k_cstr(&m.join(p));
            let fd = unsafe { libc::open(c.as_ptr(), libc::O_RDWR | libc::O_NOFOLLOW) };
            if fd < 0 {
                return Err(k_errno());
            }
            let n = unsafe { libc::fallocate(fd, if *keep { libc::FALLOC_FL_KEEP_SIZE } else { 0 }, *off as i64, *len as i64) };
            let e = k_errno();
            unsafe { libc::close(fd) };
            if n < 0 {
                Err(e)
            } else {
                Ok(())
            }
        }
        Op::Chmod(p, perm) => {
            let md = fs::symlink_metadata(m.join(p)).map_err(|e| e.raw_os_error().unwrap_or(libc::EIO))?;
            if md.file_type().is_symlink() {
                return Err(libc::EOPNOTSUPP);
            }
            rc(unsafe { libc::chmod(k_cstr(&m.join(p)).as_ptr(), *perm) })
        }
        Op::Truncate(p, sz) => {
            let md = fs::symlink_metadata(m.join(p)).map_err(|e| e.raw_os_error().unwrap_or(libc::EIO))?;
            if md.is_dir() {
                return Err(libc::EISDIR);
            }
            if !md.is_file() {
                return Err(libc::EINVAL);
            }
            rc(unsafe { libc::truncate(k_cstr(&m.join(p)).as_ptr(), *sz as i64) })
        }
        Op::OpenTrunc(p, acc) => {
            let md = fs::symlink_metadata(m.join(p)).map_err(|e| e.raw_os_error().unwrap_or(libc::EIO))?;
            if md.is_dir() {
                return Err(libc::EISDIR);
            }
            if !md.is_file() {
                return Err(libc::EINVAL);
            }
            let fd = unsafe { libc::open(k_cstr(&m.join(p)).as_ptr(), *acc | libc::O_TRUNC | libc::O_NOFOLLOW) };
            if fd < 0 {
                return Err(k_errno());
            }
            unsafe { libc::close(fd) };
            Ok(())
        }
        Op::SetXattr(p, v) => {
            let name = std::ffi::CString::new("user.c10").unwrap();
            rc(unsafe { libc::lsetxattr(k_cstr(&m.join(p)).as_ptr(), name.as_ptr(), v.as_ptr() as *const _, v.len(), 0) })
        }
        Op::RemoveXattr(p) => {
            let name = std::ffi::CString::new("user.c10").unwrap();
            rc(unsafe { libc::lremovexattr(k_cstr(&m.join(p)).as_ptr(), name.as_ptr()) })
        }
    }
}

/// The tree under a host directory in the shape `walk` produces for the client.
fn k_walk(root: &Path) -> BTreeMap<String, WNode> {
    let mut out = BTreeMap::new();
    for (p, n) in snapshot(root) {
        if p == "." {
            continue;
        }
        let (perm, size) = match n.kind {
            'l' => (0o777, 0),
            'f' => (n.mode, n.size),
            _ => (n.mode, 0),
        };
        out.insert(p, WNode { kind: n.kind, perm, size, content: if n.kind == 'f' || n.kind == 'l' { n.content } else { 0 } });
    }
    out
}

pub fn run_kernel(args: &Args, rep: &mut Report) {
    use std::ffi::CString;
    let base = args.get("scratch").unwrap_or("/verif/scratch/adhoc").to_string();
    for idx in args.indices() {
        let mut r = Rng::derive(args.seed, "OVL", idx, 0);
        rep.begin(idx, "kernel-overlay-universe");
        let sc = Scratch::new(&base, &format!("kovl-{}-{}", args.shard, idx));
        // the same universe the C10 check builds for this index
        let nlower = r.range(1, 3) as usize;
        let no_upper = idx % 7 == 6;
        let upper_spec = gen_layer(&mut r, 0, 0, true);
        let lower_specs: Vec<BTreeMap<String, Spec>> = (0..nlower).map(|i| gen_layer(&mut r, i + 1, 0, i + 1 < nlower)).collect();
        if no_upper && nlower < 2 {
            rep.count("kernel:skipped-lower-only-needs-two-layers", 1);
            continue;
        }
        let upper = sc.dir.join("upper");
        let work = sc.sub("work");
        let mnt = sc.sub("mnt");
        let lowers: Vec<PathBuf> = (0..nlower).map(|i| sc.dir.join(format!("lower{}", i))).collect();
        if !no_upper {
            materialise(&upper, &upper_spec);
            k_retag_opaque(&upper, &upper_spec);
        }
        for (i, l) in lowers.iter().enumerate() {
            materialise(l, &lower_specs[i]);
            k_retag_opaque(l, &lower_specs[i]);
        }
        let lowerdir = lowers.iter().map(|l| l.to_str().unwrap().to_string()).collect::<Vec<_>>().join(":");
        let mut mounted = false;
        for extra in [",index=off,metacopy=off,redirect_dir=off,xino=off", ""] {
            let opts = if no_upper { format!("lowerdir={}{}", lowerdir, extra) } else { format!("lowerdir={},upperdir={},workdir={}{}", lowerdir, upper.display(), work.display(), extra) };
            let rc = unsafe {
                libc::mount(
                    CString::new("overlay").unwrap().as_ptr(),
                    k_cstr(&mnt).as_ptr(),
                    CString::new("overlay").unwrap().as_ptr(),
                    0,
                    CString::new(opts).unwrap().as_ptr() as *const libc::c_void,
                )
            };
            if rc == 0 {
                mounted = true;
                break;
            }
        }
        if !mounted {
            rep.inconclusive("harness:kernel-overlay-mount-refused", J::obj(vec![("errno", J::I(k_errno() as i64)), ("index", J::U(idx))]));
            continue;
        }
        let mut specs: Vec<&BTreeMap<String, Spec>> = Vec::new();
        if !no_upper {
            specs.push(&upper_spec);
        }
        for l in &lower_specs {
            specs.push(l);
        }
        let mut model = union(&specs);
        let mut trace: Vec<String> = Vec::new();
        let mut disagreement: Option<(String, String)> = None;
        let compare = |model: &BTreeMap<String, MNode>, when: &str| -> Option<(String, String)> {
            let mut want = BTreeMap::new();
            flatten(model, "", &mut want);
            diff_trees(&k_walk(&mnt), &want, "kernel-overlayfs", "reference-union").map(|d| ("model-vs-kernel:view".to_string(), format!("{}: {}", when, d)))
        };
        disagreement = disagreement.or_else(|| compare(&model, "initial view"));
        let nops = if disagreement.is_some() { 0 } else { r.range(10, if args.tier == "thorough" { 60 } else { 30 }) };
        let mut kheld: BTreeMap<String, i32> = BTreeMap::new();
        for step in 0..nops {
            let held_paths: Vec<String> = kheld.keys().cloned().collect();
            let op = gen_op(&mut r, &model, &held_paths);
            let got = k_apply(&mnt, &op, &mut kheld).err().unwrap_or(0);
            let mut m2 = model.clone();
            let want = apply_model(&mut m2, &op).err().unwrap_or(0);
            trace.push(format!("{:?} -> kernel {} (reference: {})", op, errclass(got), errclass(want)));
            // not an evaluation of the property (the crate is not involved): counted separately
            rep.count("kernel:operations-compared", 1);
            rep.count(&format!("kernel:op:{}:{}", format!("{:?}", op).split('(').next().unwrap_or(""), errclass(got)), 1);
            if no_upper {
                if got == 0 && !matches!(op, Op::OpenHold(_) | Op::CloseHeld(_)) {
                    disagreement = Some(("model-vs-kernel:lower-only-modified".into(), format!("`{:?}` succeeded on a lower-only kernel overlay", op)));
                    break;
                }
            } else {
                let certain = matches!(want, 0 | libc::EEXIST | libc::ENOENT | libc::ENOTEMPTY | libc::ENOTDIR | libc::EISDIR);
                if let (Op::Rmdir(p), libc::ENOTEMPTY, 0) = (&op, got, want) {
                    // kernel artefact, not a rule: a directory that exists only in the upper layer (not merged) and
                    // holds nothing but whiteouts lists as empty but cannot be removed, because the kernel only
                    // clears whiteouts out of *merged* directories before rmdir
                    use std::os::unix::fs::FileTypeExt;
                    let only_whiteouts = fs::read_dir(upper.join(p))
                        .map(|d| d.filter_map(|e| e.ok()).all(|e| e.metadata().map(|m| m.file_type().is_char_device() && m.rdev() == 0).unwrap_or(false)))
                        .unwrap_or(false);
                    if only_whiteouts {
                        rep.count("kernel:artefact:rmdir-of-unmerged-upper-dir-holding-only-whiteouts", 1);
                        break;
                    }
                }
                if certain && (got == 0) != (want == 0) {
                    disagreement = Some((format!("model-vs-kernel:outcome:{}", format!("{:?}", op).split('(').next().unwrap_or("")), format!("`{:?}`: the kernel answered {} (errno {}), the reference {}", op, errclass(got), got, errclass(want))));
                    break;
                }
                if certain && got != 0 && want != 0 && errclass(got) != errclass(want) && errclass(got) != "other" {
                    disagreement = Some((format!("model-vs-kernel:errno:{}", format!("{:?}", op).split('(').next().unwrap_or("")), format!("`{:?}`: the kernel answered {}, the reference {}", op, errclass(got), errclass(want))));
                    break;
                }
                if got == 0 && want == 0 {
                    model = m2;
                } else if got == 0 && want != 0 {
                    // uncertain reference outcome and the kernel did it: nothing further can be compared
                    rep.count("kernel:uncertain-outcome-universe-ended", 1);
                    break;
                }
            }
            if let Some(d) = compare(&model, &format!("after step {} `{:?}`", step, op)) {
                disagreement = Some(d);
                break;
            }
            rep.count("kernel:views-compared", 1);
        }
        for fd in kheld.values() {
            unsafe { libc::close(*fd) };
        }
        unsafe { libc::umount2(k_cstr(&mnt).as_ptr(), libc::MNT_DETACH) };
        rep.count("kernel:universes", 1);
        if let Some((what, why)) = disagreement {
            let layers_desc: String = format!("upper={} lowers={}", if no_upper { "none".to_string() } else { format!("{:?}", upper_spec) }, lower_specs.iter().map(|s| format!("{:?}", s)).collect::<Vec<_>>().join(" | ")).chars().take(1500).collect();
            rep.count(&format!("kernel:disagreement:{}", what), 1);
            rep.inconclusive(&what, J::obj(vec![("why", J::s(why)), ("index", J::U(idx)), ("layers", J::s(&layers_desc)), ("operations", J::A(trace.iter().rev().take(12).rev().map(J::s).collect()))]));
        } else {
            rep.count("kernel:universes-in-agreement", 1);
        }
    }
}

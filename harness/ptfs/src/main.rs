//! Passthrough-filesystem monitors: C05 C06 C08 C09 C15 C16 C18 (and the stack half of C12).
mod c05;
mod c06;
mod c08;
mod c09;
mod c10;
mod c12;
mod c15;
mod c16;
mod c18;
mod env;
mod kc;
mod ovl;

use vkit::run::{Args, Report};

/// look a path up in a layer spec
pub fn ovl_spec_get<'a>(spec: &'a std::collections::BTreeMap<String, ovl::Spec>, path: &str) -> Option<&'a ovl::Spec> {
    let mut cur = spec;
    let comps: Vec<&str> = path.split('/').collect();
    for (i, c) in comps.iter().enumerate() {
        let n = cur.get(*c)?;
        if i + 1 == comps.len() {
            return Some(n);
        }
        match n {
            ovl::Spec::Dir { children, .. } => cur = children,
            _ => return None,
        }
    }
    None
}

fn main() {
    let args = Args::parse();
    let mut rep = Report::new(&args);
    vkit::xport::install_panic_hook();
    // PassthroughFs::import() sets the process umask to 0 anyway; do it up front so that every
    // case (not only those after the first import) sees the same modes
    unsafe { libc::umask(0) };
    match args.prop.as_str() {
        "C05" => c05::run(&args, &mut rep),
        "C06" => c06::run(&args, &mut rep),
        "C08" => c08::run(&args, &mut rep),
        "C09" => c09::run(&args, &mut rep),
        "C10" | "C11" => c10::run(&args, &mut rep),
        "C12" => c12::run(&args, &mut rep),
        "C15" => c15::run(&args, &mut rep),
        "C16" => c16::run(&args, &mut rep),
        "C18" => c18::run(&args, &mut rep),
        other => {
            eprintln!("ptfs: unknown property {}", other);
            std::process::exit(2);
        }
    }
    rep.finish();
}

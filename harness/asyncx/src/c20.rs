//! C20 — for every request byte string the asynchronous handler invokes the same filesystem
//! operation with the same arguments and emits the same reply bytes (or the same absence of a
//! reply) as the synchronous handler.
//!
//! One scripted filesystem implements both traits from the same seeded script and logs both under
//! the same method names. Each request goes to a fresh (ScriptFs, Server) pair through
//! handle_message and to another fresh pair, same seed, through async_handle_message on the crate's
//! own runtime; call logs and reply bytes are compared. Reply capacity is always ample (capacity is
//! C01's quantifier). The device of the /dev/fuse transport is a memfd for both paths, because the
//! asynchronous writer uses pwrite().
use std::sync::Arc;

use fuse_backend_rs::api::server::Server;
use fuse_backend_rs::async_runtime::Runtime;
use fuse_backend_rs::transport::FsCacheReqHandler;
use vkit::gen::{gen_request, header, GenReq, OPS};
use vkit::json::J;
use vkit::klayout::{kconst, ksize, put};
use vkit::prng::Rng;
use vkit::run::{Args, Report};
use vkit::scriptfs::{NopCache, Script, ScriptFs};
use vkit::xport::{run_fusedev_with, run_virtio_with, FileSink, Outcome};

use crate::c01::mutate;
use crate::common::*;

fn exec(rt: &Runtime, sink: &FileSink, srv: &Server<Arc<ScriptFs>>, tx: &Tx, req: &[u8], cap: usize, with_vu: bool, asynchronous: bool) -> Outcome {
    let mut nop = NopCache;
    let vu: Option<&mut dyn FsCacheReqHandler> = if with_vu { Some(&mut nop) } else { None };
    match tx {
        Tx::Fd { aliased } => {
            if asynchronous {
                run_fusedev_with(sink, req, cap, *aliased, move |r, w| rt.block_on(async { unsafe { srv.async_handle_message(r, w, vu, None).await } }).map_err(|e| format!("{:?}", e)))
            } else {
                run_fusedev_with(sink, req, cap, *aliased, move |r, w| srv.handle_message(r, w, vu, None).map_err(|e| format!("{:?}", e)))
            }
        }
        Tx::Virtio { shape } => {
            if asynchronous {
                run_virtio_with(shape, req, move |r, w| rt.block_on(async { unsafe { srv.async_handle_message(r, w, vu, None).await } }).map_err(|e| format!("{:?}", e)))
            } else {
                run_virtio_with(shape, req, move |r, w| srv.handle_message(r, w, vu, None).map_err(|e| format!("{:?}", e)))
            }
        }
    }
}

/// An INIT request negotiating protocol minor `minor` (sent through the synchronous path to both servers).
fn init_request(minor: u32) -> Vec<u8> {
    let mut body = vec![0u8; ksize("fuse_init_in")];
    put(&mut body, 0, "fuse_init_in", "major", 7);
    put(&mut body, 0, "fuse_init_in", "minor", minor as u64);
    put(&mut body, 0, "fuse_init_in", "max_readahead", 65536);
    put(&mut body, 0, "fuse_init_in", "flags", 0);
    header(kconst("FUSE_INIT") as u32, 1, 0, 0, 0, 0, &body)
}

fn ret_class(o: &Outcome) -> String {
    match &o.ret {
        Ok(_) => "Ok".to_string(),
        Err(e) => format!("Err({})", e.split(|c: char| c == '(' || c == ' ' || c == '{').next().unwrap_or("")),
    }
}

pub fn run(args: &Args, rep: &mut Report) {
    vkit::xport::install_panic_hook();
    let rt = Runtime::new();
    rep.count(match rt {
        Runtime::Tokio(_) => "runtime:tokio",
        Runtime::Uring(_) => "runtime:tokio-uring",
    }, 1);
    let sink = FileSink::new();
    for idx in args.indices() {
        if rep.too_many() {
            break;
        }
        let mut r = Rng::derive(args.seed, "C20", idx, 0);
        let opname = OPS[(idx % OPS.len() as u64) as usize];
        let kind = (idx / OPS.len() as u64) % 10; // 0..4 well-formed, 5..8 mutated, 9 random bytes
        rep.begin(idx, opname);
        let g: GenReq = gen_request(&mut r, opname, &gen_opts(idx % 211 == 0));
        let (bytes, class) = if kind <= 4 {
            (g.bytes.clone(), "well-formed".to_string())
        } else if kind <= 8 {
            mutate(&mut r, &g)
        } else {
            let hi = if r.chance(1, 8) { 4096 } else { 200 };
            let n = r.below(hi) as usize;
            (r.bytes(n), "random-bytes".to_string())
        };
        let fs_seed = r.next();
        let script = Script { err_permille: 250, ioctl_out: if r.chance(1, 2) { Some(r.bytes(64)) } else { None }, no_passthrough: true, ..Default::default() };
        let with_vu = g.needs_vu && r.chance(3, 4);
        // protocol version: default of a fresh server, or negotiated (LOOKUP's negative-entry rule depends on it)
        let minor = *r.pick(&[0u32, 0, 3, 4, 12, 31, 38]);
        let cap = ample_capacity(&g).max(bytes.len() + 4096);
        let tx = match r.below(4) {
            0 => Tx::Fd { aliased: false },
            1 => Tx::Fd { aliased: true },
            _ => Tx::Virtio { shape: gen_shape(&mut r, bytes.len(), cap) },
        };
        let mut outs: Vec<(Outcome, Vec<vkit::scriptfs::Call>)> = Vec::new();
        for asynchronous in [false, true] {
            let (fs, srv) = new_server(fs_seed, script.clone());
            if minor != 0 {
                let init = init_request(minor);
                let _ = exec(&rt, &sink, &srv, &Tx::Fd { aliased: false }, &init, 4096, false, false);
                let _ = fs.take_log();
            }
            let out = exec(&rt, &sink, &srv, &tx, &bytes, cap, with_vu, asynchronous);
            outs.push((out, fs.take_log()));
        }
        rep.eval();
        let (so, slog) = &outs[0];
        let (ao, alog) = &outs[1];
        rep.count(&format!("op:{}", g.opname), 1);
        rep.count(&format!("transport:{}", so.transport), 1);
        rep.count(&format!("class:{}", class.split(':').next().unwrap_or("")), 1);
        if slog.is_empty() {
            rep.count("no-filesystem-call", 1);
        }
        for c in alog.iter() {
            // which asynchronous data entry points the asynchronous run went through
            match (&c.res, c.method) {
                (vkit::scriptfs::Res::Read { via_file: true, .. }, _) => rep.count("async_write_from-used", 1),
                (vkit::scriptfs::Res::Read { via_file: false, .. }, _) => rep.count("async-read-through-write()", 1),
                (_, "write") => {
                    let sz = match c.arg("size") {
                        Some(vkit::scriptfs::V::U(v)) => *v,
                        _ => 1,
                    };
                    rep.count(if sz % 3 == 0 && sz > 0 { "async_read_to-used" } else { "async-write-through-read()" }, 1)
                }
                _ => {}
            }
        }
        if ret_class(so) != ret_class(ao) {
            rep.count("return-class-differs(not-part-of-the-statement)", 1);
        }
        let sj: Vec<String> = slog.iter().map(|c| c.j().dump()).collect();
        let aj: Vec<String> = alog.iter().map(|c| c.j().dump()).collect();
        let same_calls = slog == alog; // full comparison (the JSON rendering abbreviates long byte strings)
        let calls = slog.first().map(|c| c.method).unwrap_or("nocall");
        let outcome_cls = slog.first().map(|c| c.res.class()).unwrap_or("-");
        rep.key(&format!("{}|{}|{}|{}|{}|replies{}|v{}", g.opname, class, so.transport, calls, outcome_cls, so.records.len(), minor));
        let mut verdict: Option<(String, String)> = None;
        if so.panic.is_some() {
            // C01's business; nothing to compare against
            rep.inconclusive("sync-panic", J::obj(vec![("request", J::bytes(&bytes)), ("panic", J::s(so.panic.as_ref().unwrap()))]));
            continue;
        }
        if let Some(p) = &ao.panic {
            verdict = Some((format!("C20:async-panic:{}", g.opname), format!("the asynchronous handler panicked ({}), the synchronous one returned {:?}", p, so.ret)));
        } else if !same_calls {
            let k = slog.iter().zip(alog.iter()).position(|(a, b)| a != b).unwrap_or(sj.len().min(aj.len()));
            let kind = if sj.len() != aj.len() { "call-count" } else { "call-args" };
            verdict = Some((
                format!("C20:{}:{}:{}", kind, g.opname, class.split(':').next().unwrap_or("")),
                format!("filesystem calls differ at #{}: sync {} / async {}", k, sj.get(k).map(|s| s.as_str()).unwrap_or("<none>"), aj.get(k).map(|s| s.as_str()).unwrap_or("<none>")),
            ));
        } else if so.records != ao.records {
            let kind = match (so.records.len(), ao.records.len()) {
                (0, _) => "reply-only-async",
                (_, 0) => "reply-only-sync",
                _ => "reply-bytes",
            };
            let first_diff = match (so.records.first(), ao.records.first()) {
                (Some(a), Some(b)) => a.iter().zip(b.iter()).position(|(x, y)| x != y).unwrap_or(a.len().min(b.len())),
                _ => 0,
            };
            verdict = Some((
                format!("C20:{}:{}:{}:{}", kind, g.opname, if so.transport.starts_with("fusedev") { "fusedev" } else { "virtio" }, class.split(':').next().unwrap_or("")),
                format!("replies differ (sync {} record(s) of {:?} bytes, async {} of {:?}); first differing byte {}", so.records.len(), so.records.iter().map(|r| r.len()).collect::<Vec<_>>(), ao.records.len(), ao.records.iter().map(|r| r.len()).collect::<Vec<_>>(), first_diff),
            ));
        } else if ao.stray.is_some() && so.stray.is_none() {
            verdict = Some((format!("C20:async-stray-write:{}", g.opname), ao.stray.clone().unwrap()));
        }
        if let Some((sig, why)) = verdict {
            rep.violation(
                &sig,
                idx,
                J::obj(vec![
                    ("why", J::s(why)),
                    ("class", J::s(&class)),
                    ("request", J::bytes(&bytes)),
                    ("negotiated_minor", J::U(minor as u64)),
                    ("transport", tx.j()),
                    ("sync_calls", J::A(slog.iter().map(|c| c.j()).collect())),
                    ("async_calls", J::A(alog.iter().map(|c| c.j()).collect())),
                    ("sync", outcome_json(so)),
                    ("async", outcome_json(ao)),
                ]),
            );
        } else if rep.want_sample() {
            rep.sample(J::obj(vec![("class", J::s(&class)), ("op", J::s(g.opname)), ("transport", tx.j()), ("calls", J::A(slog.iter().map(|c| c.j()).collect())), ("reply_len", J::U(so.records.first().map(|r| r.len()).unwrap_or(0) as u64))]));
        }
    }
}

//! C20 — the asynchronous request path against the synchronous one (crate feature `async-io`).
#[allow(dead_code)]
#[path = "../../wire/src/c01.rs"]
mod c01;
mod c20;
#[allow(dead_code)]
#[path = "../../wire/src/common.rs"]
mod common;

use vkit::run::{Args, Report};

fn main() {
    let args = Args::parse();
    let mut rep = Report::new(&args);
    match args.prop.as_str() {
        "C20" => c20::run(&args, &mut rep),
        other => {
            eprintln!("asyncx: unknown property {}", other);
            std::process::exit(2);
        }
    }
    rep.finish();
}

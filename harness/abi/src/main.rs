//! C13 — wire structures and constants match the kernel's FUSE ABI.
//! Oracle: the layout table generated from /usr/include/linux/fuse.h by a C probe (vkit::klayout)
//! plus a small supplementary table for constants newer than the installed header.
use fuse_backend_rs::abi::fuse_abi::*;
use fuse_backend_rs::abi::virtio_fs::{RemovemappingIn, RemovemappingOne, SetupmappingIn};
use vkit::json::J;
use vkit::klayout::{kconst, kconst_opt, kfield, kstruct};
use vkit::prng::Rng;
use vkit::run::{Args, Report};
use vm_memory::ByteValued;

/// Constants of uapi versions newer than the installed header (source: upstream include/uapi/linux/fuse.h).
const SUPPLEMENT: &[(&str, u64)] = &[("FUSE_HAS_RESEND", 1 << 39), ("FUSE_NOTIFY_RESEND", 7)];

fn kc(name: &str) -> u64 {
    kconst_opt(name).unwrap_or_else(|| SUPPLEMENT.iter().find(|(n, _)| *n == name).map(|(_, v)| *v).unwrap_or_else(|| panic!("no constant {}", name)))
}

struct Ctx<'a> {
    rep: &'a mut Report,
    idx: u64,
}

impl Ctx<'_> {
    fn field(&mut self, cs: &str, ks: &str, cf: &str, kf: &str, off: usize, size: usize, dyn_off: Option<usize>) {
        self.idx += 1;
        self.rep.eval();
        self.rep.key(&format!("field|{}|{}", ks, kf));
        let (ko, kz) = kfield(ks, kf);
        if off != ko || size != kz {
            self.rep.violation(
                &format!("C13:layout:{}.{}", ks, kf),
                self.idx,
                J::obj(vec![("why", J::s(format!("{}.{} is at offset {} width {}; kernel {}.{} is at offset {} width {}", cs, cf, off, size, ks, kf, ko, kz)))]),
            );
        } else if let Some(d) = dyn_off {
            if d != ko {
                self.rep.violation(
                    &format!("C13:as_slice:{}.{}", ks, kf),
                    self.idx,
                    J::obj(vec![("why", J::s(format!("bytes of {}.{} appear at offset {} of as_slice(), kernel offset {}", cs, cf, d, ko)))]),
                );
            }
        }
    }
    fn size(&mut self, cs: &str, ks: &str, csz: usize, rule: &str, mapped: &[&str]) {
        self.idx += 1;
        self.rep.eval();
        self.rep.key(&format!("struct|{}", ks));
        let k = kstruct(ks);
        match rule {
            "exact" => {
                if csz != k.size {
                    self.rep.violation(&format!("C13:size:{}", ks), self.idx, J::obj(vec![("why", J::s(format!("size_of {} = {}, kernel struct {} = {}", cs, csz, ks, k.size)))]));
                }
                // every kernel field must be mapped
                for f in k.fields.iter().filter(|f| !f.name.contains('.') && !f.flex) {
                    if !mapped.contains(&f.name) {
                        self.rep.violation(&format!("C13:unmapped:{}.{}", ks, f.name), self.idx, J::obj(vec![("why", J::s(format!("kernel field {}.{} has no counterpart in {}", ks, f.name, cs)))]));
                    }
                }
            }
            // the crate deliberately uses the layout the client sends when an extension was not negotiated
            "compat-prefix" => {
                if csz > k.size {
                    self.rep.violation(&format!("C13:size:{}", ks), self.idx, J::obj(vec![("why", J::s(format!("{} ({} bytes) is larger than kernel {} ({})", cs, csz, ks, k.size)))]));
                }
                for f in k.fields.iter().filter(|f| !f.name.contains('.') && !f.flex && f.off + f.size <= csz) {
                    if !mapped.contains(&f.name) {
                        self.rep.violation(&format!("C13:unmapped:{}.{}", ks, f.name), self.idx, J::obj(vec![("why", J::s(format!("kernel field {}.{} (inside the compat prefix) has no counterpart in {}", ks, f.name, cs)))]));
                    }
                }
            }
            _ => {}
        }
    }
    fn konst(&mut self, what: &str, got: u64, kname: &str) {
        self.idx += 1;
        self.rep.eval();
        self.rep.key(&format!("const|{}", kname));
        let want = kc(kname);
        if got != want {
            self.rep.violation(&format!("C13:const:{}", kname), self.idx, J::obj(vec![("why", J::s(format!("{} = {:#x}, kernel {} = {:#x}", what, got, kname, want)))]));
        }
    }
}

/// st!(ctx, CrateStruct, "kernel_struct", rule, { crate_field => "kernel_field", ... })
macro_rules! st {
    ($ctx:expr, $cr:ty, $ks:expr, $rule:expr, { $( $f:ident => $kf:expr ),* $(,)? }) => {{
        let d = <$cr>::default();
        let mut mapped: Vec<&str> = Vec::new();
        $(
            let off = std::mem::offset_of!($cr, $f);
            let size = std::mem::size_of_val(&d.$f);
            // dynamic confirmation: stamp the field, look where the stamp shows up in as_slice()
            let mut v = <$cr>::default();
            let dyn_off = unsafe {
                let p = &mut v.$f as *mut _ as *mut u8;
                for i in 0..size { *p.add(i) = 0xC3; }
                v.as_slice().iter().position(|b| *b == 0xC3)
            };
            let run = v.as_slice().iter().filter(|b| **b == 0xC3).count();
            $ctx.field(stringify!($cr), $ks, stringify!($f), $kf, off, size, if run == size { dyn_off } else { Some(usize::MAX) });
            mapped.push($kf);
        )*
        $ctx.size(stringify!($cr), $ks, std::mem::size_of::<$cr>(), $rule, &mapped);
    }};
}

fn structs(ctx: &mut Ctx) {
    st!(ctx, Attr, "fuse_attr", "exact", { ino=>"ino", size=>"size", blocks=>"blocks", atime=>"atime", mtime=>"mtime", ctime=>"ctime", atimensec=>"atimensec",
        mtimensec=>"mtimensec", ctimensec=>"ctimensec", mode=>"mode", nlink=>"nlink", uid=>"uid", gid=>"gid", rdev=>"rdev", blksize=>"blksize", flags=>"flags" });
    st!(ctx, Kstatfs, "fuse_kstatfs", "exact", { blocks=>"blocks", bfree=>"bfree", bavail=>"bavail", files=>"files", ffree=>"ffree", bsize=>"bsize",
        namelen=>"namelen", frsize=>"frsize", padding=>"padding", spare=>"spare" });
    st!(ctx, FileLock, "fuse_file_lock", "exact", { start=>"start", end=>"end", type_=>"type", pid=>"pid" });
    st!(ctx, EntryOut, "fuse_entry_out", "exact", { nodeid=>"nodeid", generation=>"generation", entry_valid=>"entry_valid", attr_valid=>"attr_valid",
        entry_valid_nsec=>"entry_valid_nsec", attr_valid_nsec=>"attr_valid_nsec", attr=>"attr" });
    st!(ctx, ForgetIn, "fuse_forget_in", "exact", { nlookup=>"nlookup" });
    st!(ctx, ForgetOne, "fuse_forget_one", "exact", { nodeid=>"nodeid", nlookup=>"nlookup" });
    st!(ctx, BatchForgetIn, "fuse_batch_forget_in", "exact", { count=>"count", dummy=>"dummy" });
    st!(ctx, GetattrIn, "fuse_getattr_in", "exact", { flags=>"getattr_flags", dummy=>"dummy", fh=>"fh" });
    st!(ctx, AttrOut, "fuse_attr_out", "exact", { attr_valid=>"attr_valid", attr_valid_nsec=>"attr_valid_nsec", dummy=>"dummy", attr=>"attr" });
    st!(ctx, MknodIn, "fuse_mknod_in", "exact", { mode=>"mode", rdev=>"rdev", umask=>"umask", padding=>"padding" });
    st!(ctx, MkdirIn, "fuse_mkdir_in", "exact", { mode=>"mode", umask=>"umask" });
    st!(ctx, RenameIn, "fuse_rename_in", "exact", { newdir=>"newdir" });
    st!(ctx, Rename2In, "fuse_rename2_in", "exact", { newdir=>"newdir", flags=>"flags", padding=>"padding" });
    st!(ctx, LinkIn, "fuse_link_in", "exact", { oldnodeid=>"oldnodeid" });
    st!(ctx, SetattrIn, "fuse_setattr_in", "exact", { valid=>"valid", padding=>"padding", fh=>"fh", size=>"size", lock_owner=>"lock_owner", atime=>"atime",
        mtime=>"mtime", ctime=>"ctime", atimensec=>"atimensec", mtimensec=>"mtimensec", ctimensec=>"ctimensec", mode=>"mode", unused4=>"unused4", uid=>"uid",
        gid=>"gid", unused5=>"unused5" });
    st!(ctx, OpenIn, "fuse_open_in", "exact", { flags=>"flags", fuse_flags=>"open_flags" });
    st!(ctx, CreateIn, "fuse_create_in", "exact", { flags=>"flags", mode=>"mode", umask=>"umask", fuse_flags=>"open_flags" });
    // third word: `padding` in 7.38, `backing_id` from 7.40
    st!(ctx, OpenOut, "fuse_open_out", "exact", { fh=>"fh", open_flags=>"open_flags", passthrough=>"padding" });
    st!(ctx, ReleaseIn, "fuse_release_in", "exact", { fh=>"fh", flags=>"flags", release_flags=>"release_flags", lock_owner=>"lock_owner" });
    st!(ctx, FlushIn, "fuse_flush_in", "exact", { fh=>"fh", unused=>"unused", padding=>"padding", lock_owner=>"lock_owner" });
    st!(ctx, ReadIn, "fuse_read_in", "exact", { fh=>"fh", offset=>"offset", size=>"size", read_flags=>"read_flags", lock_owner=>"lock_owner", flags=>"flags", padding=>"padding" });
    st!(ctx, WriteIn, "fuse_write_in", "exact", { fh=>"fh", offset=>"offset", size=>"size", fuse_flags=>"write_flags", lock_owner=>"lock_owner", flags=>"flags", padding=>"padding" });
    st!(ctx, WriteOut, "fuse_write_out", "exact", { size=>"size", padding=>"padding" });
    st!(ctx, StatfsOut, "fuse_statfs_out", "exact", { st=>"st" });
    st!(ctx, FsyncIn, "fuse_fsync_in", "exact", { fh=>"fh", fsync_flags=>"fsync_flags", padding=>"padding" });
    // FUSE_SETXATTR_EXT is never negotiated: the client sends the 8-byte compat struct
    st!(ctx, SetxattrIn, "fuse_setxattr_in", "compat-prefix", { size=>"size", flags=>"flags" });
    st!(ctx, GetxattrIn, "fuse_getxattr_in", "exact", { size=>"size", padding=>"padding" });
    st!(ctx, GetxattrOut, "fuse_getxattr_out", "exact", { size=>"size", padding=>"padding" });
    st!(ctx, LkIn, "fuse_lk_in", "exact", { fh=>"fh", owner=>"owner", lk=>"lk", lk_flags=>"lk_flags", padding=>"padding" });
    st!(ctx, LkOut, "fuse_lk_out", "exact", { lk=>"lk" });
    st!(ctx, AccessIn, "fuse_access_in", "exact", { mask=>"mask", padding=>"padding" });
    // InitIn + InitIn2 together are fuse_init_in
    st!(ctx, InitIn, "fuse_init_in", "split-head", { major=>"major", minor=>"minor", max_readahead=>"max_readahead", flags=>"flags" });
    {
        // InitIn2 follows InitIn directly: flags2 at 16, unused fills the rest
        ctx.idx += 1;
        ctx.rep.eval();
        ctx.rep.key("struct|fuse_init_in(split)");
        let head = std::mem::size_of::<InitIn>();
        let (o2, z2) = kfield("fuse_init_in", "flags2");
        let (ou, zu) = kfield("fuse_init_in", "unused");
        let d = InitIn2::default();
        let ok = head + std::mem::offset_of!(InitIn2, flags2) == o2
            && std::mem::size_of_val(&d.flags2) == z2
            && head + std::mem::offset_of!(InitIn2, unused) == ou
            && std::mem::size_of_val(&d.unused) == zu
            && head + std::mem::size_of::<InitIn2>() == kstruct("fuse_init_in").size;
        if !ok {
            ctx.rep.violation("C13:layout:fuse_init_in.split", ctx.idx, J::obj(vec![("why", J::s("InitIn followed by InitIn2 does not tile struct fuse_init_in"))]));
        }
    }
    st!(ctx, InitOut, "fuse_init_out", "exact", { major=>"major", minor=>"minor", max_readahead=>"max_readahead", flags=>"flags", max_background=>"max_background",
        congestion_threshold=>"congestion_threshold", max_write=>"max_write", time_gran=>"time_gran", max_pages=>"max_pages", map_alignment=>"map_alignment",
        flags2=>"flags2", unused=>"unused" });
    st!(ctx, InterruptIn, "fuse_interrupt_in", "exact", { unique=>"unique" });
    st!(ctx, BmapIn, "fuse_bmap_in", "exact", { block=>"block", blocksize=>"blocksize", padding=>"padding" });
    st!(ctx, BmapOut, "fuse_bmap_out", "exact", { block=>"block" });
    st!(ctx, IoctlIn, "fuse_ioctl_in", "exact", { fh=>"fh", flags=>"flags", cmd=>"cmd", arg=>"arg", in_size=>"in_size", out_size=>"out_size" });
    st!(ctx, IoctlIovec, "fuse_ioctl_iovec", "exact", { base=>"base", len=>"len" });
    st!(ctx, IoctlOut, "fuse_ioctl_out", "exact", { result=>"result", flags=>"flags", in_iovs=>"in_iovs", out_iovs=>"out_iovs" });
    st!(ctx, PollIn, "fuse_poll_in", "exact", { fh=>"fh", kh=>"kh", flags=>"flags", events=>"events" });
    st!(ctx, PollOut, "fuse_poll_out", "exact", { revents=>"revents", padding=>"padding" });
    st!(ctx, NotifyPollWakeupOut, "fuse_notify_poll_wakeup_out", "exact", { kh=>"kh" });
    st!(ctx, FallocateIn, "fuse_fallocate_in", "exact", { fh=>"fh", offset=>"offset", length=>"length", mode=>"mode", padding=>"padding" });
    // 7.38 split the last word into total_extlen:u16 + padding:u16; the crate keeps the one u32 (same bytes)
    {
        let d = InHeader::default();
        let fields: [(&str, &str, usize, usize); 7] = [
            ("len", "len", std::mem::offset_of!(InHeader, len), std::mem::size_of_val(&d.len)),
            ("opcode", "opcode", std::mem::offset_of!(InHeader, opcode), std::mem::size_of_val(&d.opcode)),
            ("unique", "unique", std::mem::offset_of!(InHeader, unique), std::mem::size_of_val(&d.unique)),
            ("nodeid", "nodeid", std::mem::offset_of!(InHeader, nodeid), std::mem::size_of_val(&d.nodeid)),
            ("uid", "uid", std::mem::offset_of!(InHeader, uid), std::mem::size_of_val(&d.uid)),
            ("gid", "gid", std::mem::offset_of!(InHeader, gid), std::mem::size_of_val(&d.gid)),
            ("pid", "pid", std::mem::offset_of!(InHeader, pid), std::mem::size_of_val(&d.pid)),
        ];
        for (cf, kf, off, size) in fields {
            ctx.field("InHeader", "fuse_in_header", cf, kf, off, size, None);
        }
        ctx.idx += 1;
        ctx.rep.eval();
        ctx.rep.key("field|fuse_in_header|total_extlen+padding");
        let (o1, z1) = kfield("fuse_in_header", "total_extlen");
        let (o2, z2) = kfield("fuse_in_header", "padding");
        if std::mem::offset_of!(InHeader, padding) != o1 || std::mem::size_of_val(&d.padding) != z1 + z2 || o2 != o1 + z1 {
            ctx.rep.violation("C13:layout:fuse_in_header.padding", ctx.idx, J::obj(vec![("why", J::s("InHeader.padding does not cover total_extlen+padding"))]));
        }
        ctx.size("InHeader", "fuse_in_header", std::mem::size_of::<InHeader>(), "size-only", &[]);
        if std::mem::size_of::<InHeader>() != kstruct("fuse_in_header").size {
            ctx.rep.violation("C13:size:fuse_in_header", ctx.idx, J::obj(vec![("why", J::s("InHeader size differs"))]));
        }
    }
    st!(ctx, OutHeader, "fuse_out_header", "exact", { len=>"len", error=>"error", unique=>"unique" });
    // fuse_dirent ends in a flexible `name[]`
    st!(ctx, Dirent, "fuse_dirent", "exact", { ino=>"ino", off=>"off", namelen=>"namelen", type_=>"type" });
    st!(ctx, Direntplus, "fuse_direntplus", "exact", { entry_out=>"entry_out", dirent=>"dirent" });
    st!(ctx, NotifyInvalInodeOut, "fuse_notify_inval_inode_out", "exact", { ino=>"ino", off=>"off", len=>"len" });
    // 7.38 renamed the padding word to `flags`
    st!(ctx, NotifyInvalEntryOut, "fuse_notify_inval_entry_out", "exact", { parent=>"parent", namelen=>"namelen", padding=>"flags" });
    st!(ctx, NotifyDeleteOut, "fuse_notify_delete_out", "exact", { parent=>"parent", child=>"child", namelen=>"namelen", padding=>"padding" });
    st!(ctx, NotifyStoreOut, "fuse_notify_store_out", "exact", { nodeid=>"nodeid", offset=>"offset", size=>"size", padding=>"padding" });
    st!(ctx, Notify_Retrieve_Out, "fuse_notify_retrieve_out", "exact", { notify_unique=>"notify_unique", nodeid=>"nodeid", offset=>"offset", size=>"size", padding=>"padding" });
    st!(ctx, NotifyRetrieveIn, "fuse_notify_retrieve_in", "exact", { dummy1=>"dummy1", offset=>"offset", size=>"size", dummy2=>"dummy2", dummy3=>"dummy3", dummy4=>"dummy4" });
    st!(ctx, LseekIn, "fuse_lseek_in", "exact", { fh=>"fh", offset=>"offset", whence=>"whence", padding=>"padding" });
    st!(ctx, LseekOut, "fuse_lseek_out", "exact", { offset=>"offset" });
    st!(ctx, CopyFileRangeIn, "fuse_copy_file_range_in", "exact", { fh_in=>"fh_in", offset_in=>"off_in", nodeid_out=>"nodeid_out", fh_out=>"fh_out",
        offset_out=>"off_out", len=>"len", flags=>"flags" });
    // virtio-fs DAX mapping structures
    st!(ctx, SetupmappingIn, "fuse_setupmapping_in", "exact", { fh=>"fh", foffset=>"foffset", len=>"len", flags=>"flags", moffset=>"moffset" });
    st!(ctx, RemovemappingIn, "fuse_removemapping_in", "exact", { count=>"count" });
    st!(ctx, RemovemappingOne, "fuse_removemapping_one", "exact", { moffset=>"moffset", len=>"len" });
}

fn opcode_table() -> Vec<(u32, &'static str)> {
    vec![
        (Opcode::Lookup as u32, "FUSE_LOOKUP"), (Opcode::Forget as u32, "FUSE_FORGET"), (Opcode::Getattr as u32, "FUSE_GETATTR"), (Opcode::Setattr as u32, "FUSE_SETATTR"),
        (Opcode::Readlink as u32, "FUSE_READLINK"), (Opcode::Symlink as u32, "FUSE_SYMLINK"), (Opcode::Mknod as u32, "FUSE_MKNOD"), (Opcode::Mkdir as u32, "FUSE_MKDIR"),
        (Opcode::Unlink as u32, "FUSE_UNLINK"), (Opcode::Rmdir as u32, "FUSE_RMDIR"), (Opcode::Rename as u32, "FUSE_RENAME"), (Opcode::Link as u32, "FUSE_LINK"),
        (Opcode::Open as u32, "FUSE_OPEN"), (Opcode::Read as u32, "FUSE_READ"), (Opcode::Write as u32, "FUSE_WRITE"), (Opcode::Statfs as u32, "FUSE_STATFS"),
        (Opcode::Release as u32, "FUSE_RELEASE"), (Opcode::Fsync as u32, "FUSE_FSYNC"), (Opcode::Setxattr as u32, "FUSE_SETXATTR"), (Opcode::Getxattr as u32, "FUSE_GETXATTR"),
        (Opcode::Listxattr as u32, "FUSE_LISTXATTR"), (Opcode::Removexattr as u32, "FUSE_REMOVEXATTR"), (Opcode::Flush as u32, "FUSE_FLUSH"), (Opcode::Init as u32, "FUSE_INIT"),
        (Opcode::Opendir as u32, "FUSE_OPENDIR"), (Opcode::Readdir as u32, "FUSE_READDIR"), (Opcode::Releasedir as u32, "FUSE_RELEASEDIR"), (Opcode::Fsyncdir as u32, "FUSE_FSYNCDIR"),
        (Opcode::Getlk as u32, "FUSE_GETLK"), (Opcode::Setlk as u32, "FUSE_SETLK"), (Opcode::Setlkw as u32, "FUSE_SETLKW"), (Opcode::Access as u32, "FUSE_ACCESS"),
        (Opcode::Create as u32, "FUSE_CREATE"), (Opcode::Interrupt as u32, "FUSE_INTERRUPT"), (Opcode::Bmap as u32, "FUSE_BMAP"), (Opcode::Destroy as u32, "FUSE_DESTROY"),
        (Opcode::Ioctl as u32, "FUSE_IOCTL"), (Opcode::Poll as u32, "FUSE_POLL"), (Opcode::NotifyReply as u32, "FUSE_NOTIFY_REPLY"), (Opcode::BatchForget as u32, "FUSE_BATCH_FORGET"),
        (Opcode::Fallocate as u32, "FUSE_FALLOCATE"), (Opcode::Readdirplus as u32, "FUSE_READDIRPLUS"), (Opcode::Rename2 as u32, "FUSE_RENAME2"), (Opcode::Lseek as u32, "FUSE_LSEEK"),
        (Opcode::CopyFileRange as u32, "FUSE_COPY_FILE_RANGE"), (Opcode::SetupMapping as u32, "FUSE_SETUPMAPPING"), (Opcode::RemoveMapping as u32, "FUSE_REMOVEMAPPING"),
        (Opcode::CuseInitBswapReserved as u32, "CUSE_INIT_BSWAP_RESERVED"), (Opcode::InitBswapReserved as u32, "FUSE_INIT_BSWAP_RESERVED"),
    ]
}

fn constants(ctx: &mut Ctx) {
    for (v, k) in opcode_table() {
        ctx.konst(&format!("Opcode::{}", k), v as u64, k);
    }
    ctx.konst("NotifyOpcode::Poll", NotifyOpcode::Poll as u64, "FUSE_NOTIFY_POLL");
    ctx.konst("NotifyOpcode::InvalInode", NotifyOpcode::InvalInode as u64, "FUSE_NOTIFY_INVAL_INODE");
    ctx.konst("NotifyOpcode::InvalEntry", NotifyOpcode::InvalEntry as u64, "FUSE_NOTIFY_INVAL_ENTRY");
    ctx.konst("NotifyOpcode::Store", NotifyOpcode::Store as u64, "FUSE_NOTIFY_STORE");
    ctx.konst("NotifyOpcode::Retrieve", NotifyOpcode::Retrieve as u64, "FUSE_NOTIFY_RETRIEVE");
    ctx.konst("NotifyOpcode::Delete", NotifyOpcode::Delete as u64, "FUSE_NOTIFY_DELETE");
    ctx.konst("NotifyOpcode::Resend", NotifyOpcode::Resend as u64, "FUSE_NOTIFY_RESEND");
    let fo: &[(FsOptions, &str)] = &[
        (FsOptions::ASYNC_READ, "FUSE_ASYNC_READ"), (FsOptions::POSIX_LOCKS, "FUSE_POSIX_LOCKS"), (FsOptions::FILE_OPS, "FUSE_FILE_OPS"),
        (FsOptions::ATOMIC_O_TRUNC, "FUSE_ATOMIC_O_TRUNC"), (FsOptions::EXPORT_SUPPORT, "FUSE_EXPORT_SUPPORT"), (FsOptions::BIG_WRITES, "FUSE_BIG_WRITES"),
        (FsOptions::DONT_MASK, "FUSE_DONT_MASK"), (FsOptions::SPLICE_WRITE, "FUSE_SPLICE_WRITE"), (FsOptions::SPLICE_MOVE, "FUSE_SPLICE_MOVE"),
        (FsOptions::SPLICE_READ, "FUSE_SPLICE_READ"), (FsOptions::FLOCK_LOCKS, "FUSE_FLOCK_LOCKS"), (FsOptions::HAS_IOCTL_DIR, "FUSE_HAS_IOCTL_DIR"),
        (FsOptions::AUTO_INVAL_DATA, "FUSE_AUTO_INVAL_DATA"), (FsOptions::DO_READDIRPLUS, "FUSE_DO_READDIRPLUS"), (FsOptions::READDIRPLUS_AUTO, "FUSE_READDIRPLUS_AUTO"),
        (FsOptions::ASYNC_DIO, "FUSE_ASYNC_DIO"), (FsOptions::WRITEBACK_CACHE, "FUSE_WRITEBACK_CACHE"), (FsOptions::ZERO_MESSAGE_OPEN, "FUSE_NO_OPEN_SUPPORT"),
        (FsOptions::PARALLEL_DIROPS, "FUSE_PARALLEL_DIROPS"), (FsOptions::HANDLE_KILLPRIV, "FUSE_HANDLE_KILLPRIV"), (FsOptions::POSIX_ACL, "FUSE_POSIX_ACL"),
        (FsOptions::ABORT_ERROR, "FUSE_ABORT_ERROR"), (FsOptions::MAX_PAGES, "FUSE_MAX_PAGES"), (FsOptions::CACHE_SYMLINKS, "FUSE_CACHE_SYMLINKS"),
        (FsOptions::ZERO_MESSAGE_OPENDIR, "FUSE_NO_OPENDIR_SUPPORT"), (FsOptions::EXPLICIT_INVAL_DATA, "FUSE_EXPLICIT_INVAL_DATA"),
        (FsOptions::MAP_ALIGNMENT, "FUSE_MAP_ALIGNMENT"), (FsOptions::SUBMOUNTS, "FUSE_SUBMOUNTS"), (FsOptions::HANDLE_KILLPRIV_V2, "FUSE_HANDLE_KILLPRIV_V2"),
        (FsOptions::INIT_EXT, "FUSE_INIT_EXT"), (FsOptions::PERFILE_DAX, "FUSE_HAS_INODE_DAX"), (FsOptions::HAS_RESEND, "FUSE_HAS_RESEND"),
    ];
    for (b, k) in fo {
        ctx.konst(&format!("FsOptions::{}", k), b.bits(), k);
    }
    let sv: &[(SetattrValid, &str)] = &[
        (SetattrValid::MODE, "FATTR_MODE"), (SetattrValid::UID, "FATTR_UID"), (SetattrValid::GID, "FATTR_GID"), (SetattrValid::SIZE, "FATTR_SIZE"),
        (SetattrValid::ATIME, "FATTR_ATIME"), (SetattrValid::MTIME, "FATTR_MTIME"), (SetattrValid::ATIME_NOW, "FATTR_ATIME_NOW"),
        (SetattrValid::MTIME_NOW, "FATTR_MTIME_NOW"), (SetattrValid::CTIME, "FATTR_CTIME"), (SetattrValid::KILL_SUIDGID, "FATTR_KILL_SUIDGID"),
    ];
    for (b, k) in sv {
        ctx.konst(&format!("SetattrValid::{}", k), b.bits() as u64, k);
    }
    ctx.konst("FATTR_FH", FATTR_FH as u64, "FATTR_FH");
    ctx.konst("FATTR_LOCKOWNER", FATTR_LOCKOWNER as u64, "FATTR_LOCKOWNER");
    let oo: &[(OpenOptions, &str)] = &[
        (OpenOptions::DIRECT_IO, "FOPEN_DIRECT_IO"), (OpenOptions::KEEP_CACHE, "FOPEN_KEEP_CACHE"), (OpenOptions::NONSEEKABLE, "FOPEN_NONSEEKABLE"),
        (OpenOptions::CACHE_DIR, "FOPEN_CACHE_DIR"), (OpenOptions::STREAM, "FOPEN_STREAM"),
    ];
    for (b, k) in oo {
        ctx.konst(&format!("OpenOptions::{}", k), b.bits() as u64, k);
    }
    let io: &[(IoctlFlags, &str)] = &[
        (IoctlFlags::IOCTL_COMPAT, "FUSE_IOCTL_COMPAT"), (IoctlFlags::IOCTL_UNRESTRICTED, "FUSE_IOCTL_UNRESTRICTED"), (IoctlFlags::IOCTL_RETRY, "FUSE_IOCTL_RETRY"),
        (IoctlFlags::IOCTL_32BIT, "FUSE_IOCTL_32BIT"), (IoctlFlags::IOCTL_DIR, "FUSE_IOCTL_DIR"), (IoctlFlags::IOCTL_COMPAT_X32, "FUSE_IOCTL_COMPAT_X32"),
        (IoctlFlags::IOCTL_MAX_IOV, "FUSE_IOCTL_MAX_IOV"),
    ];
    for (b, k) in io {
        ctx.konst(&format!("IoctlFlags::{}", k), b.bits() as u64, k);
    }
    ctx.konst("KERNEL_VERSION", KERNEL_VERSION as u64, "FUSE_KERNEL_VERSION");
    ctx.konst("ROOT_ID", ROOT_ID, "FUSE_ROOT_ID");
    ctx.konst("FOPEN_IN_KILL_SUIDGID", FOPEN_IN_KILL_SUIDGID as u64, "FUSE_OPEN_KILL_SUIDGID");
    ctx.konst("FUSE_ATTR_DAX", FUSE_ATTR_DAX as u64, "FUSE_ATTR_DAX");
    ctx.konst("ATTR_SUBMOUNT", ATTR_SUBMOUNT as u64, "FUSE_ATTR_SUBMOUNT");
    ctx.konst("RELEASE_FLUSH", RELEASE_FLUSH as u64, "FUSE_RELEASE_FLUSH");
    ctx.konst("RELEASE_FLOCK_UNLOCK", RELEASE_FLOCK_UNLOCK as u64, "FUSE_RELEASE_FLOCK_UNLOCK");
    ctx.konst("GETATTR_FH", GETATTR_FH as u64, "FUSE_GETATTR_FH");
    ctx.konst("LK_FLOCK", LK_FLOCK as u64, "FUSE_LK_FLOCK");
    ctx.konst("WRITE_CACHE", WRITE_CACHE as u64, "FUSE_WRITE_CACHE");
    ctx.konst("WRITE_LOCKOWNER", WRITE_LOCKOWNER as u64, "FUSE_WRITE_LOCKOWNER");
    ctx.konst("WRITE_KILL_PRIV", WRITE_KILL_PRIV as u64, "FUSE_WRITE_KILL_SUIDGID");
    ctx.konst("READ_LOCKOWNER", READ_LOCKOWNER as u64, "FUSE_READ_LOCKOWNER");
    ctx.konst("POLL_SCHEDULE_NOTIFY", POLL_SCHEDULE_NOTIFY as u64, "FUSE_POLL_SCHEDULE_NOTIFY");
    ctx.konst("FSYNC_FDATASYNC", FSYNC_FDATASYNC as u64, "FUSE_FSYNC_FDATASYNC");
    ctx.konst("FUSE_MIN_READ_BUFFER", FUSE_MIN_READ_BUFFER as u64, "FUSE_MIN_READ_BUFFER");
    ctx.konst("FUSE_COMPAT_ENTRY_OUT_SIZE", FUSE_COMPAT_ENTRY_OUT_SIZE as u64, "FUSE_COMPAT_ENTRY_OUT_SIZE");
    ctx.konst("FUSE_COMPAT_ATTR_OUT_SIZE", FUSE_COMPAT_ATTR_OUT_SIZE as u64, "FUSE_COMPAT_ATTR_OUT_SIZE");
    ctx.konst("FUSE_COMPAT_MKNOD_IN_SIZE", FUSE_COMPAT_MKNOD_IN_SIZE as u64, "FUSE_COMPAT_MKNOD_IN_SIZE");
    ctx.konst("FUSE_COMPAT_WRITE_IN_SIZE", FUSE_COMPAT_WRITE_IN_SIZE as u64, "FUSE_COMPAT_WRITE_IN_SIZE");
    ctx.konst("FUSE_COMPAT_STATFS_SIZE", FUSE_COMPAT_STATFS_SIZE as u64, "FUSE_COMPAT_STATFS_SIZE");
    ctx.konst("FUSE_COMPAT_INIT_OUT_SIZE", FUSE_COMPAT_INIT_OUT_SIZE as u64, "FUSE_COMPAT_INIT_OUT_SIZE");
    ctx.konst("FUSE_COMPAT_22_INIT_OUT_SIZE", FUSE_COMPAT_22_INIT_OUT_SIZE as u64, "FUSE_COMPAT_22_INIT_OUT_SIZE");
    // the crate speaks an older minor than the installed header: it must not claim a newer one
    ctx.idx += 1;
    ctx.rep.eval();
    ctx.rep.key("const|FUSE_KERNEL_MINOR_VERSION");
    if KERNEL_MINOR_VERSION as u64 > kconst("FUSE_KERNEL_MINOR_VERSION") + 8 || KERNEL_MINOR_VERSION < 23 {
        ctx.rep.violation("C13:const:minor", ctx.idx, J::obj(vec![("why", J::s(format!("implausible KERNEL_MINOR_VERSION {}", KERNEL_MINOR_VERSION)))]));
    }
}

/// Opcode::from(u32) over a range: defined opcodes map to themselves, everything else to the
/// unsupported-opcode value.
fn opcode_range(lo: u64, hi: u64, defined: &std::collections::HashMap<u32, ()>) -> Option<(u32, u32)> {
    let unsup = Opcode::MaxOpcode as u32;
    let mut n = lo;
    while n < hi {
        let v = n as u32;
        let got = Opcode::from(v) as u32;
        // the two byte-swap sentinels are enum members but not decodable opcodes
        let want = if defined.contains_key(&v) && v < 1000 { v } else { unsup };
        if got != want {
            return Some((v, got));
        }
        n += 1;
    }
    None
}

fn stat_conversions(ctx: &mut Ctx, seed: u64, n: u64) {
    let mut r = Rng::derive(seed, "C13stat", 0, 0);
    for i in 0..n {
        ctx.idx += 1;
        ctx.rep.eval();
        let s = vkit::scriptfs::StatVals::random(&mut r);
        let st = s.to_stat();
        let a: Attr = st.into();
        let mut bad: Option<String> = None;
        let mut chk = |name: &str, got: u64, want: u64| {
            if got != want && bad.is_none() {
                bad = Some(format!("{}: {} vs {}", name, got, want));
            }
        };
        chk("ino", a.ino, s.ino);
        chk("size", a.size, s.size as u64);
        chk("blocks", a.blocks, s.blocks as u64);
        chk("atime", a.atime, s.atime as u64);
        chk("mtime", a.mtime, s.mtime as u64);
        chk("ctime", a.ctime, s.ctime as u64);
        chk("atimensec", a.atimensec as u64, s.atime_nsec as u32 as u64);
        chk("mtimensec", a.mtimensec as u64, s.mtime_nsec as u32 as u64);
        chk("ctimensec", a.ctimensec as u64, s.ctime_nsec as u32 as u64);
        chk("mode", a.mode as u64, s.mode as u64);
        chk("nlink", a.nlink as u64, s.nlink as u32 as u64);
        chk("uid", a.uid as u64, s.uid as u64);
        chk("gid", a.gid as u64, s.gid as u64);
        chk("rdev", a.rdev as u64, s.rdev as u32 as u64);
        chk("blksize", a.blksize as u64, s.blksize as u32 as u64);
        chk("flags", a.flags as u64, 0);
        let fl = r.next() as u32;
        let af = Attr::with_flags(st, fl);
        chk("with_flags.flags", af.flags as u64, fl as u64);
        chk("with_flags.ino", af.ino, s.ino);
        // wire -> host -> wire keeps every wire field
        let back: stat64 = a.into();
        let a2: Attr = back.into();
        chk("roundtrip", (a2.as_slice() == a.as_slice()) as u64, 1);
        chk("back.st_size", back.st_size as u64, a.size);
        chk("back.st_mode", back.st_mode as u64, a.mode as u64);
        chk("back.st_nlink", back.st_nlink as u64, a.nlink as u64);
        chk("back.st_rdev", back.st_rdev as u64, a.rdev as u64);
        chk("back.st_mtime_nsec", back.st_mtime_nsec as u64, a.mtimensec as u64);
        // setattr_in -> stat64
        let si = SetattrIn {
            valid: r.next() as u32,
            padding: 0,
            fh: r.next(),
            size: r.edge(64),
            lock_owner: r.next(),
            atime: r.edge(64),
            mtime: r.edge(64),
            ctime: r.edge(64),
            atimensec: r.edge(32) as u32,
            mtimensec: r.edge(32) as u32,
            ctimensec: r.edge(32) as u32,
            mode: r.edge(32) as u32,
            unused4: 0,
            uid: r.edge(32) as u32,
            gid: r.edge(32) as u32,
            unused5: 0,
        };
        let ss: stat64 = si.into();
        chk("setattr.size", ss.st_size as u64, si.size);
        chk("setattr.mode", ss.st_mode as u64, si.mode as u64);
        chk("setattr.uid", ss.st_uid as u64, si.uid as u64);
        chk("setattr.gid", ss.st_gid as u64, si.gid as u64);
        chk("setattr.atime", ss.st_atime as u64, si.atime);
        chk("setattr.mtime", ss.st_mtime as u64, si.mtime);
        chk("setattr.ctime", ss.st_ctime as u64, si.ctime);
        chk("setattr.atimensec", ss.st_atime_nsec as u64, si.atimensec as u64);
        chk("setattr.mtimensec", ss.st_mtime_nsec as u64, si.mtimensec as u64);
        chk("setattr.ctimensec", ss.st_ctime_nsec as u64, si.ctimensec as u64);
        // statvfs -> kstatfs
        let mut sv: statvfs64 = unsafe { std::mem::zeroed() };
        sv.f_blocks = r.edge(64);
        sv.f_bfree = r.edge(64);
        sv.f_bavail = r.edge(64);
        sv.f_files = r.edge(64);
        sv.f_ffree = r.edge(64);
        sv.f_bsize = r.edge(32);
        sv.f_namemax = r.edge(32);
        sv.f_frsize = r.edge(32);
        let k: Kstatfs = sv.into();
        chk("statfs.blocks", k.blocks, sv.f_blocks);
        chk("statfs.bfree", k.bfree, sv.f_bfree);
        chk("statfs.bavail", k.bavail, sv.f_bavail);
        chk("statfs.files", k.files, sv.f_files);
        chk("statfs.ffree", k.ffree, sv.f_ffree);
        chk("statfs.bsize", k.bsize as u64, sv.f_bsize as u32 as u64);
        chk("statfs.namelen", k.namelen as u64, sv.f_namemax as u32 as u64);
        chk("statfs.frsize", k.frsize as u64, sv.f_frsize as u32 as u64);
        if let Some(b) = bad {
            let field = b.split(':').next().unwrap_or("").to_string();
            ctx.rep.violation(&format!("C13:conversion:{}", field), ctx.idx, J::obj(vec![("why", J::s(b)), ("stat", s.j())]));
        }
        if i < 64 {
            ctx.rep.key(&format!("conv|{}", i));
        }
    }
}

fn main() {
    let args = Args::parse();
    let mut rep = Report::new(&args);
    if args.prop != "C13" {
        eprintln!("abi: unknown property");
        std::process::exit(2);
    }
    vkit::xport::install_panic_hook();
    let shard = args.shard;
    let nshards = args.nshards.max(1);
    {
        let mut ctx = Ctx { rep: &mut rep, idx: 0 };
        if shard == 0 || args.only.is_some() {
            ctx.rep.begin(0, "struct table");
            structs(&mut ctx);
            constants(&mut ctx);
            let n = ctx.idx;
            ctx.rep.count("struct_fields_and_constants_checked", n);
            ctx.rep.sample(J::obj(vec![("struct", J::s("fuse_entry_out")), ("crate", J::s("EntryOut")), ("fields", J::U(kstruct("fuse_entry_out").fields.len() as u64))]));
        }
        ctx.idx = 1_000_000 + shard;
        stat_conversions(&mut ctx, args.seed ^ shard, args.cases / nshards);
    }
    // the whole 32-bit opcode space, split over the shards
    let mut defined = std::collections::HashMap::new();
    for (v, _) in opcode_table() {
        defined.insert(v, ());
    }
    let span = (1u64 << 32) / nshards;
    let lo = shard * span;
    let hi = if shard + 1 == nshards { 1u64 << 32 } else { lo + span };
    rep.begin(2_000_000 + shard, "opcode range");
    if let Some((v, got)) = opcode_range(lo, hi, &defined) {
        rep.violation("C13:opcode-from", 2_000_000 + shard, J::obj(vec![("why", J::s(format!("Opcode::from({}) = {}", v, got)))]));
    }
    rep.evals(hi - lo);
    rep.count("opcode_numbers_checked", hi - lo);
    rep.sample(J::obj(vec![("opcode_range", J::A(vec![J::U(lo), J::U(hi)]))]));
    rep.finish();
}

//! File-like sources/sinks for the transport monitors: an in-memory file (works under Miri) and a
//! memfd-backed `std::fs::File` (native only), both behind one enum with a shadow model.
use std::io;

use fuse_backend_rs::file_buf::FileVolatileSlice;
use fuse_backend_rs::file_traits::FileReadWriteVolatile;

/// In-memory file with a position; vectored like the crate's impl for `File`.
pub struct MemFile {
    pub data: Vec<u8>,
    pub pos: usize,
}

impl MemFile {
    pub fn new(data: Vec<u8>) -> MemFile {
        MemFile { data, pos: 0 }
    }
    fn read_into(&self, at: usize, bufs: &[FileVolatileSlice]) -> usize {
        let mut p = at;
        let mut total = 0;
        for b in bufs {
            if p >= self.data.len() {
                break;
            }
            let n = b.len().min(self.data.len() - p);
            unsafe { std::ptr::copy_nonoverlapping(self.data.as_ptr().add(p), b.as_ptr(), n) };
            p += n;
            total += n;
            if n < b.len() {
                break;
            }
        }
        total
    }
    fn write_from(&mut self, at: usize, bufs: &[FileVolatileSlice]) -> usize {
        let mut p = at;
        let mut total = 0;
        for b in bufs {
            let n = b.len();
            if n == 0 {
                continue;
            }
            if self.data.len() < p + n {
                self.data.resize(p + n, 0);
            }
            unsafe { std::ptr::copy_nonoverlapping(b.as_ptr() as *const u8, self.data.as_mut_ptr().add(p), n) };
            p += n;
            total += n;
        }
        total
    }
}

impl FileReadWriteVolatile for MemFile {
    fn read_volatile(&mut self, slice: FileVolatileSlice) -> io::Result<usize> {
        let n = self.read_into(self.pos, &[slice]);
        self.pos += n;
        Ok(n)
    }
    fn read_vectored_volatile(&mut self, bufs: &[FileVolatileSlice]) -> io::Result<usize> {
        let n = self.read_into(self.pos, bufs);
        self.pos += n;
        Ok(n)
    }
    fn write_volatile(&mut self, slice: FileVolatileSlice) -> io::Result<usize> {
        let n = self.write_from(self.pos, &[slice]);
        self.pos += n;
        Ok(n)
    }
    fn write_vectored_volatile(&mut self, bufs: &[FileVolatileSlice]) -> io::Result<usize> {
        let n = self.write_from(self.pos, bufs);
        self.pos += n;
        Ok(n)
    }
    fn read_at_volatile(&mut self, slice: FileVolatileSlice, offset: u64) -> io::Result<usize> {
        Ok(self.read_into(offset as usize, &[slice]))
    }
    fn read_vectored_at_volatile(&mut self, bufs: &[FileVolatileSlice], offset: u64) -> io::Result<usize> {
        Ok(self.read_into(offset as usize, bufs))
    }
    fn write_at_volatile(&mut self, slice: FileVolatileSlice, offset: u64) -> io::Result<usize> {
        Ok(self.write_from(offset as usize, &[slice]))
    }
    fn write_vectored_at_volatile(&mut self, bufs: &[FileVolatileSlice], offset: u64) -> io::Result<usize> {
        Ok(self.write_from(offset as usize, bufs))
    }
}

/// A file under test plus its model (content + position).
pub enum AnyFile {
    Mem(MemFile),
    #[cfg(not(miri))]
    Fd(std::fs::File),
}

pub struct TFile {
    pub f: AnyFile,
    pub model: Vec<u8>,
    pub mpos: usize,
}

impl TFile {
    pub fn new(data: Vec<u8>, use_fd: bool) -> TFile {
        let _ = use_fd;
        #[cfg(not(miri))]
        if use_fd {
            use std::io::{Seek, SeekFrom};
            let mut f = vkit::scriptfs::memfd_with(&data);
            f.seek(SeekFrom::Start(0)).unwrap();
            return TFile { f: AnyFile::Fd(f), model: data, mpos: 0 };
        }
        TFile { f: AnyFile::Mem(MemFile::new(data.clone())), model: data, mpos: 0 }
    }
    /// Current real content of the file.
    pub fn content(&mut self) -> Vec<u8> {
        match &mut self.f {
            AnyFile::Mem(m) => m.data.clone(),
            #[cfg(not(miri))]
            AnyFile::Fd(f) => {
                use std::os::unix::fs::FileExt;
                let len = f.metadata().unwrap().len() as usize;
                let mut v = vec![0u8; len];
                f.read_exact_at(&mut v, 0).unwrap();
                v
            }
        }
    }
    pub fn real_pos(&mut self) -> usize {
        match &mut self.f {
            AnyFile::Mem(m) => m.pos,
            #[cfg(not(miri))]
            AnyFile::Fd(f) => {
                use std::io::{Seek, SeekFrom};
                f.seek(SeekFrom::Current(0)).unwrap() as usize
            }
        }
    }
    pub fn kind(&self) -> &'static str {
        match &self.f {
            AnyFile::Mem(_) => "memfile",
            #[cfg(not(miri))]
            AnyFile::Fd(_) => "memfd",
        }
    }
}

/// Call `$body` with `$f` bound to `&mut impl FileReadWriteVolatile`.
#[macro_export]
macro_rules! with_file {
    ($tf:expr, $f:ident, $body:expr) => {
        match &mut $tf.f {
            $crate::memfile::AnyFile::Mem($f) => $body,
            #[cfg(not(miri))]
            $crate::memfile::AnyFile::Fd($f) => $body,
        }
    };
}

//! C04 / C17 — transport readers/writers against a flat-vector model; dirty-page tracking against
//! the exact expected page set. Miri-clean (files are in-memory under Miri).
mod memfile;

use std::io::{IoSlice, Read, Write};

use fuse_backend_rs::abi::fuse_abi::{InHeader, OutHeader};
use fuse_backend_rs::file_buf::FileVolatileSlice;
use fuse_backend_rs::file_traits::FileReadWriteVolatile;
use fuse_backend_rs::transport::{Reader, VirtioFsWriter, Writer};
#[cfg(not(miri))]
use fuse_backend_rs::transport::{FuseBuf, FuseDevWriter};
use virtio_queue::mock::MockSplitQueue;
use vm_memory::bitmap::BitmapSlice;
use vm_memory::{ByteValued, Bytes, VolatileSlice};

use memfile::TFile;
use vkit::json::J;
use vkit::prng::Rng;
use vkit::run::{Args, Report};
use vkit::xport::{guarded, VMem, VShape, PAGE};

type Fail = (String, String);

fn fail<T>(sig: &str, why: String) -> Result<T, Fail> {
    Err((sig.to_string(), why))
}

#[derive(Clone, Copy, Default, Debug)]
#[repr(C)]
struct Obj24 {
    a: u64,
    b: u64,
    c: u64,
}
unsafe impl ByteValued for Obj24 {}

fn small() -> bool {
    cfg!(miri)
}

/// Random chain shape for rlen readable + wlen writable bytes; `align` biases towards page edges.
fn shape(r: &mut Rng, rlen: usize, wlen: usize, align: bool) -> VShape {
    let nr = r.range(0, 5) as usize;
    let nw = r.range(0, 6) as usize;
    let mut rcuts: Vec<usize> = (0..nr).map(|_| r.below(rlen as u64 + 1) as usize).collect();
    let mut wcuts: Vec<usize> = (0..nw).map(|_| r.below(wlen as u64 + 1) as usize).collect();
    if r.chance(1, 3) {
        if let Some(c) = rcuts.first().copied() {
            rcuts.push(c);
        }
        if let Some(c) = wcuts.first().copied() {
            wcuts.push(c);
        }
    }
    if r.chance(1, 4) {
        rcuts.push(1);
        wcuts.push(1);
    }
    let nregions = if r.chance(1, 3) { r.range(2, 3) as usize } else { 1 };
    let gaps: Vec<usize> = (0..5)
        .map(|_| {
            if small() {
                return r.below(24) as usize;
            }
            match r.below(7) {
                0 | 1 => 0,
                2 => 1,
                3 => 4096,
                4 => r.below(64) as usize,
                5 => 4095,
                _ => r.below(9000) as usize,
            }
        })
        .collect();
    let start = if small() {
        r.below(48) as usize
    } else if align {
        match r.below(4) {
            0 => 0,
            1 => 4095,
            2 => 4096 - r.below(40) as usize,
            _ => r.below(8192) as usize,
        }
    } else {
        r.below(4200) as usize
    };
    VShape::layout(rlen, &rcuts, wlen, &wcuts, nregions, &gaps, start)
}

// ------------------------------------------------------------------------------------------------
// reader model
// ------------------------------------------------------------------------------------------------

struct RModel<'a, S: BitmapSlice> {
    rd: Reader<'a, S>,
    start: usize,
    end: usize,
    cur: usize,
}

fn reader_ops<'a, S: BitmapSlice>(r: &mut Rng, root: Reader<'a, S>, data: &[u8], nops: usize, trace: &mut Vec<String>, use_fd: bool) -> Result<(), Fail> {
    let mut pool = vec![RModel { rd: root, start: 0, end: data.len(), cur: 0 }];
    let mut sink = TFile::new(Vec::new(), use_fd);
    let inv = |m: &RModel<S>, op: &str| -> Result<(), Fail> {
        let avail = m.rd.available_bytes();
        let br = m.rd.bytes_read();
        if avail != m.end - m.cur || br != m.cur - m.start {
            return fail(
                &format!("C04:reader:counters:{}", op),
                format!("after {}: available_bytes={} bytes_read={}, model says available={} read={}", op, avail, br, m.end - m.cur, m.cur - m.start),
            );
        }
        Ok(())
    };
    inv(&pool[0], "new")?;
    for _ in 0..nops {
        let i = r.below(pool.len() as u64) as usize;
        let avail = pool[i].end - pool[i].cur;
        let n = match r.below(6) {
            0 => 0,
            1 => avail,
            2 => avail + r.range(1, 9) as usize,
            3 => r.below(9) as usize,
            _ => r.below(avail as u64 + 2) as usize,
        };
        let op = r.below(9);
        let m = &mut pool[i];
        match op {
            0 => {
                trace.push(format!("r{}.read({})", i, n));
                let mut buf = vec![0xEEu8; n + 4];
                let got = guarded(|| m.rd.read(&mut buf[..n])).map_err(|p| ("C04:reader:panic:read".to_string(), p))?;
                let k = n.min(avail);
                match got {
                    Ok(g) if g == k => {
                        if buf[..k] != data[m.cur..m.cur + k] {
                            return fail("C04:reader:data:read", format!("read({}) at cursor {} returned bytes that differ from the request bytes", n, m.cur));
                        }
                        if buf[k..].iter().any(|b| *b != 0xEE) {
                            return fail("C04:reader:overrun:read", format!("read({}) wrote past the {} bytes it reported", n, k));
                        }
                        m.cur += k;
                    }
                    other => return fail("C04:reader:count:read", format!("read({}) with {} available returned {:?}, expected Ok({})", n, avail, other, k)),
                }
                inv(m, "read")?;
            }
            1 => {
                trace.push(format!("r{}.read_exact({})", i, n));
                let mut buf = vec![0xEEu8; n];
                let got = guarded(|| m.rd.read_exact(&mut buf)).map_err(|p| ("C04:reader:panic:read_exact".to_string(), p))?;
                if n <= avail {
                    if got.is_err() {
                        return fail("C04:reader:count:read_exact", format!("read_exact({}) with {} available failed: {:?}", n, avail, got));
                    }
                    if buf[..] != data[m.cur..m.cur + n] {
                        return fail("C04:reader:data:read_exact", format!("read_exact({}) at cursor {} returned wrong bytes", n, m.cur));
                    }
                    m.cur += n;
                } else {
                    if got.is_ok() {
                        return fail("C04:reader:count:read_exact", format!("read_exact({}) with only {} available succeeded", n, avail));
                    }
                    // state after a failed read_exact is unspecified beyond monotonicity
                    let na = m.rd.available_bytes();
                    if na > avail {
                        return fail("C04:reader:rewind", format!("available grew from {} to {} after a failed read_exact", avail, na));
                    }
                    // bytes it did hand out must still be the right ones
                    let k = avail - na;
                    if buf[..k] != data[m.cur..m.cur + k] {
                        return fail("C04:reader:data:read_exact-partial", "partial bytes of a failed read_exact differ".to_string());
                    }
                    m.cur += k;
                }
                inv(m, "read_exact")?;
            }
            2 => {
                // typed object reads of different sizes
                let which = r.below(4);
                let sz = [1usize, 8, 24, 40][which as usize];
                trace.push(format!("r{}.read_obj<{}B>", i, sz));
                let cur = m.cur;
                let res: Result<Option<Vec<u8>>, String> = guarded(|| match which {
                    0 => m.rd.read_obj::<u8>().ok().map(|v| v.as_slice().to_vec()),
                    1 => m.rd.read_obj::<u64>().ok().map(|v| v.as_slice().to_vec()),
                    2 => m.rd.read_obj::<Obj24>().ok().map(|v| v.as_slice().to_vec()),
                    _ => m.rd.read_obj::<InHeader>().ok().map(|v| v.as_slice().to_vec()),
                });
                let res = res.map_err(|p| ("C04:reader:panic:read_obj".to_string(), p))?;
                if sz <= avail {
                    match res {
                        Some(v) if v[..] == data[cur..cur + sz] => m.cur += sz,
                        Some(_) => return fail("C04:reader:data:read_obj", format!("read_obj of {} bytes at cursor {} returned wrong bytes", sz, cur)),
                        None => return fail("C04:reader:count:read_obj", format!("read_obj of {} bytes with {} available failed", sz, avail)),
                    }
                } else {
                    if res.is_some() {
                        return fail("C04:reader:count:read_obj", format!("read_obj of {} bytes with only {} available succeeded", sz, avail));
                    }
                    let na = m.rd.available_bytes();
                    if na > avail {
                        return fail("C04:reader:rewind", "available grew after failed read_obj".into());
                    }
                    m.cur += avail - na;
                }
                inv(m, "read_obj")?;
            }
            3 | 4 | 5 => {
                let at = op == 4;
                let exact = op == 5;
                let off = if at { r.below(sink.model.len() as u64 + 8) as usize } else { 0 };
                trace.push(format!("r{}.{}({}{})", i, if at { "read_to_at" } else if exact { "read_exact_to" } else { "read_to" }, n, if at { format!(", off={}", off) } else { String::new() }));
                let k = n.min(avail);
                let cur = m.cur;
                let res: Result<std::io::Result<usize>, String> = guarded(|| {
                    with_file!(sink, f, {
                        if at {
                            m.rd.read_to_at(&mut *f, n, off as u64)
                        } else if exact {
                            m.rd.read_exact_to(&mut *f, n).map(|_| n)
                        } else {
                            m.rd.read_to(&mut *f, n)
                        }
                    })
                });
                let res = res.map_err(|p| ("C04:reader:panic:read_to".to_string(), p))?;
                // model of the sink
                let wpos = if at { off } else { sink.mpos };
                let put = |model: &mut Vec<u8>, pos: usize, d: &[u8]| {
                    if d.is_empty() {
                        return;
                    }
                    if model.len() < pos + d.len() {
                        model.resize(pos + d.len(), 0);
                    }
                    model[pos..pos + d.len()].copy_from_slice(d);
                };
                if exact && n > avail {
                    if res.is_ok() {
                        return fail("C04:reader:count:read_exact_to", format!("read_exact_to({}) with {} available succeeded", n, avail));
                    }
                    put(&mut sink.model, wpos, &data[cur..cur + avail]);
                    sink.mpos += avail;
                    m.cur += avail;
                } else {
                    match res {
                        Ok(g) if g == k || (exact && g == n) => {
                            put(&mut sink.model, wpos, &data[cur..cur + k]);
                            if !at {
                                sink.mpos += k;
                            }
                            m.cur += k;
                        }
                        other => return fail("C04:reader:count:read_to", format!("file transfer of {} with {} available returned {:?}, expected Ok({})", n, avail, other, k)),
                    }
                }
                let real = sink.content();
                if real != sink.model {
                    let first = real.iter().zip(sink.model.iter()).position(|(a, b)| a != b);
                    return fail(
                        "C04:reader:data:read_to",
                        format!("{} content after the transfer differs from the request bytes (len {} vs model {}, first difference {:?})", sink.kind(), real.len(), sink.model.len(), first),
                    );
                }
                inv(m, "read_to")?;
            }
            _ => {
                let off = match r.below(4) {
                    0 => 0,
                    1 => avail,
                    2 => avail + 1,
                    _ => r.below(avail as u64 + 1) as usize,
                };
                trace.push(format!("r{}.split_at({})", i, off));
                let res = guarded(|| m.rd.split_at(off)).map_err(|p| ("C04:reader:panic:split_at".to_string(), p))?;
                if off <= avail {
                    match res {
                        Ok(nr) => {
                            let old_end = m.end;
                            m.end = m.cur + off;
                            inv(m, "split_at(self)")?;
                            let nm = RModel { rd: nr, start: m.cur + off, end: old_end, cur: m.cur + off };
                            inv(&nm, "split_at(new)")?;
                            if pool.len() < 6 {
                                pool.push(nm);
                            } else {
                                pool[i] = nm;
                            }
                        }
                        Err(e) => return fail("C04:reader:split", format!("split_at({}) with {} available failed: {:?}", off, avail, e)),
                    }
                } else {
                    if res.is_ok() {
                        return fail("C04:reader:split", format!("split_at({}) beyond the {} available bytes succeeded", off, avail));
                    }
                    inv(m, "split_at(failed)")?;
                }
            }
        }
    }
    Ok(())
}

// ------------------------------------------------------------------------------------------------
// virtio writer model
// ------------------------------------------------------------------------------------------------

struct WModel<'a, S: BitmapSlice> {
    w: VirtioFsWriter<'a, S>,
    start: usize,
    end: usize,
    cur: usize,
}

/// Runs a random op sequence over VirtioFsWriter(s). Returns the flat model of written bytes:
/// (expected bytes per position, written flag per position).
fn vwriter_ops<'a, S: BitmapSlice>(r: &mut Rng, root: VirtioFsWriter<'a, S>, cap: usize, nops: usize, trace: &mut Vec<String>, use_fd: bool) -> Result<(Vec<u8>, Vec<bool>), Fail> {
    let mut exp = vec![0u8; cap];
    let mut written = vec![false; cap];
    let mut pool = vec![WModel { w: root, start: 0, end: cap, cur: 0 }];
    let src_data = r.bytes(if small() { 96 } else { 3000 });
    let mut src = TFile::new(src_data, use_fd);
    let inv = |m: &WModel<S>, op: &str| -> Result<(), Fail> {
        let a = m.w.available_bytes();
        let bw = m.w.bytes_written();
        if a != m.end - m.cur || bw != m.cur - m.start {
            return fail(
                &format!("C04:vwriter:counters:{}", op),
                format!("after {}: available_bytes={} bytes_written={}, model says {} / {}", op, a, bw, m.end - m.cur, m.cur - m.start),
            );
        }
        Ok(())
    };
    for _ in 0..nops {
        let i = r.below(pool.len() as u64) as usize;
        let avail = pool[i].end - pool[i].cur;
        let n = match r.below(6) {
            0 => 0,
            1 => avail,
            2 => avail + r.range(1, 9) as usize,
            3 => r.below(9) as usize,
            _ => r.below(avail as u64 + 2) as usize,
        };
        let op = r.below(9);
        let m = &mut pool[i];
        let mut commit = |m: &mut WModel<S>, d: &[u8]| {
            exp[m.cur..m.cur + d.len()].copy_from_slice(d);
            for f in written[m.cur..m.cur + d.len()].iter_mut() {
                *f = true;
            }
            m.cur += d.len();
        };
        match op {
            0 | 1 => {
                let d = r.bytes(n);
                let all = op == 1;
                trace.push(format!("w{}.{}({})", i, if all { "write_all" } else { "write" }, n));
                let res = guarded(|| if all { m.w.write_all(&d).map(|_| n) } else { m.w.write(&d) }).map_err(|p| ("C04:vwriter:panic:write".to_string(), p))?;
                if n <= avail {
                    match res {
                        Ok(k) if k == n => commit(m, &d),
                        other => return fail("C04:vwriter:count:write", format!("write of {} with {} available returned {:?}", n, avail, other)),
                    }
                } else if res.is_ok() {
                    return fail("C04:vwriter:overflow:write", format!("write of {} with only {} available succeeded", n, avail));
                }
                inv(m, "write")?;
            }
            2 => {
                let parts = r.range(0, 4) as usize;
                let mut bufs: Vec<Vec<u8>> = Vec::new();
                let mut left = n;
                for p in 0..parts {
                    let l = if p + 1 == parts { left } else { r.below(left as u64 + 1) as usize };
                    bufs.push(r.bytes(l));
                    left -= l;
                }
                let total: usize = bufs.iter().map(|b| b.len()).sum();
                trace.push(format!("w{}.write_vectored({:?})", i, bufs.iter().map(|b| b.len()).collect::<Vec<_>>()));
                let ios: Vec<IoSlice> = bufs.iter().map(|b| IoSlice::new(b)).collect();
                let res = guarded(|| m.w.write_vectored(&ios)).map_err(|p| ("C04:vwriter:panic:write_vectored".to_string(), p))?;
                if total <= avail {
                    match res {
                        Ok(k) if k == total => {
                            let flat: Vec<u8> = bufs.concat();
                            commit(m, &flat);
                        }
                        other => return fail("C04:vwriter:count:write_vectored", format!("write_vectored of {} with {} available returned {:?}", total, avail, other)),
                    }
                } else if res.is_ok() {
                    return fail("C04:vwriter:overflow:write_vectored", format!("write_vectored of {} with only {} available succeeded", total, avail));
                }
                inv(m, "write_vectored")?;
            }
            3 => {
                trace.push(format!("w{}.write_obj<OutHeader>", i));
                let h = OutHeader { len: r.next() as u32, error: r.next() as i32, unique: r.next() };
                let bytes = h.as_slice().to_vec();
                let res = guarded(|| m.w.write_obj(h)).map_err(|p| ("C04:vwriter:panic:write_obj".to_string(), p))?;
                if 16 <= avail {
                    if res.is_err() {
                        return fail("C04:vwriter:count:write_obj", format!("write_obj(16 bytes) with {} available failed", avail));
                    }
                    commit(m, &bytes);
                } else if res.is_ok() {
                    return fail("C04:vwriter:overflow:write_obj", format!("write_obj(16 bytes) with only {} available succeeded", avail));
                }
                inv(m, "write_obj")?;
            }
            4 | 5 | 6 => {
                let at = op == 5;
                let all = op == 6;
                let off = if at { r.below(src.model.len() as u64 + 4) as usize } else { src.mpos };
                trace.push(format!("w{}.{}({}, filepos={})", i, if at { "write_from_at" } else if all { "write_all_from" } else { "write_from" }, n, off));
                let res: Result<std::io::Result<usize>, String> = guarded(|| {
                    with_file!(src, f, {
                        if at {
                            m.w.write_from_at(&mut *f, n, off as u64)
                        } else if all {
                            m.w.write_all_from(&mut *f, n).map(|_| n)
                        } else {
                            m.w.write_from(&mut *f, n)
                        }
                    })
                });
                let res = res.map_err(|p| ("C04:vwriter:panic:write_from".to_string(), p))?;
                let have = src.model.len().saturating_sub(off);
                if n > avail {
                    if res.is_ok() {
                        return fail("C04:vwriter:overflow:write_from", format!("file transfer of {} with only {} available succeeded", n, avail));
                    }
                } else {
                    let k = n.min(have);
                    let d = src.model[off.min(src.model.len())..off.min(src.model.len()) + k].to_vec();
                    if all && have < n {
                        // source runs dry: error after moving what there was
                        if res.is_ok() {
                            return fail("C04:vwriter:count:write_all_from", format!("write_all_from({}) with {} bytes left in the file succeeded", n, have));
                        }
                        commit(m, &d);
                        src.mpos += k;
                    } else {
                        match res {
                            Ok(g) if g == k || (all && g == n) => {
                                commit(m, &d);
                                if !at {
                                    src.mpos += k;
                                }
                            }
                            other => return fail("C04:vwriter:count:write_from", format!("file transfer of {} ({} in file, {} available) returned {:?}, expected Ok({})", n, have, avail, other, k)),
                        }
                    }
                }
                if !at && src.real_pos() != src.mpos {
                    return fail("C04:vwriter:filepos", format!("source position {} but {} bytes were consumed", src.real_pos(), src.mpos));
                }
                inv(m, "write_from")?;
            }
            _ => {
                let off = match r.below(4) {
                    0 => 0,
                    1 => avail,
                    2 => avail + 1,
                    _ => r.below(avail as u64 + 1) as usize,
                };
                trace.push(format!("w{}.split_at({})", i, off));
                let res = guarded(|| m.w.split_at(off)).map_err(|p| ("C04:vwriter:panic:split_at".to_string(), p))?;
                if off <= avail {
                    match res {
                        Ok(nw) => {
                            let old_end = m.end;
                            m.end = m.cur + off;
                            inv(m, "split_at(self)")?;
                            let nm = WModel { w: nw, start: m.cur + off, end: old_end, cur: m.cur + off };
                            inv(&nm, "split_at(new)")?;
                            if pool.len() < 6 {
                                pool.push(nm);
                            } else {
                                pool[i] = nm;
                            }
                        }
                        Err(e) => return fail("C04:vwriter:split", format!("split_at({}) with {} available failed: {:?}", off, avail, e)),
                    }
                } else {
                    if res.is_ok() {
                        return fail("C04:vwriter:split", format!("split_at({}) beyond {} available succeeded", off, avail));
                    }
                    inv(m, "split_at(failed)")?;
                }
            }
        }
    }
    Ok((exp, written))
}

/// Map flat writable offsets to (region, page).
fn pages_of_written(shape: &VShape, written: &[bool]) -> std::collections::BTreeSet<(usize, usize)> {
    let mut out = std::collections::BTreeSet::new();
    let mut pos = 0;
    for s in shape.segs.iter().filter(|s| s.writable) {
        for k in 0..s.len {
            if written[pos + k] {
                out.insert((s.region, (s.off + k) / PAGE));
            }
        }
        pos += s.len;
    }
    out
}

struct VCase {
    shape: VShape,
    trace: Vec<String>,
}

/// One virtio writer case: op sequence + memory and dirty-bitmap verification.
fn virtio_writer_case(r: &mut Rng, check_dirty: bool, align: bool, use_fd: bool) -> (VCase, Result<(usize, usize), Fail>) {
    let cap = if small() { r.below(160) as usize } else if r.chance(1, 5) { r.below(20000) as usize } else { r.below(700) as usize };
    let rlen = if small() { r.below(32) as usize } else { r.below(100) as usize };
    let sh = shape(r, rlen, cap, align);
    let mut trace = Vec::new();
    let mut vm = VMem::new(&sh);
    let req = r.bytes(rlen);
    vm.place_request(&req);
    let descs = vm.chain_descs();
    let vq = MockSplitQueue::new(&vm.mem, 256);
    let chain = match vq.build_desc_chain(&descs) {
        Ok(c) => c,
        Err(e) => return (VCase { shape: sh, trace }, fail("harness:chain", format!("{:?}", e))),
    };
    vm.reset_bitmaps();
    let nops = if small() { r.range(1, 10) } else { r.range(1, 40) } as usize;
    let res = (|| {
        let w = VirtioFsWriter::new(&vm.mem, chain).map_err(|e| ("C04:vwriter:new".to_string(), format!("{:?}", e)))?;
        if w.available_bytes() != cap {
            return fail("C04:vwriter:capacity", format!("writer over {} writable bytes reports {} available", cap, w.available_bytes()));
        }
        let (exp, written) = vwriter_ops(r, w, cap, nops, &mut trace, use_fd)?;
        let d = vm.diff();
        if let Some(s) = d.stray {
            return fail("C04:vwriter:stray", s);
        }
        for k in 0..cap {
            if written[k] {
                if d.wbytes[k] != exp[k] {
                    return fail("C04:vwriter:data", format!("byte {} of the writable area is {:#x}, the sequence wrote {:#x}", k, d.wbytes[k], exp[k]));
                }
            } else if d.wmod[k] {
                return fail("C04:vwriter:unwritten-modified", format!("byte {} of the writable area changed although no operation wrote it", k));
            }
        }
        let nwritten = written.iter().filter(|w| **w).count();
        let mut npages = 0;
        if check_dirty {
            let want = pages_of_written(&sh, &written);
            let got: std::collections::BTreeSet<(usize, usize)> = vm.dirty_pages().into_iter().collect();
            npages = want.len();
            if let Some(p) = want.difference(&got).next() {
                return fail("C17:not-marked", format!("page {:?} (region, page) holds bytes the writer modified but is not marked dirty; dirty set {:?}", p, got));
            }
            if let Some(p) = got.difference(&want).next() {
                return fail("C17:over-marked", format!("page {:?} is marked dirty but no written byte lies in it; written pages {:?}", p, want));
            }
            if vm.queue_region_dirty() {
                return fail("C17:over-marked-queue", "queue metadata region marked dirty".into());
            }
        }
        Ok((nwritten, npages))
    })();
    (VCase { shape: sh, trace }, res)
}

fn virtio_reader_case(r: &mut Rng, use_fd: bool) -> (VCase, Result<(), Fail>) {
    let rlen = if small() { r.below(120) as usize } else if r.chance(1, 6) { r.below(20000) as usize } else { r.below(600) as usize };
    let wlen = r.below(64) as usize;
    let sh = shape(r, rlen, wlen, false);
    let mut trace = Vec::new();
    let mut vm = VMem::new(&sh);
    let data = r.bytes(rlen);
    vm.place_request(&data);
    let descs = vm.chain_descs();
    let vq = MockSplitQueue::new(&vm.mem, 256);
    let chain = match vq.build_desc_chain(&descs) {
        Ok(c) => c,
        Err(e) => return (VCase { shape: sh, trace }, fail("harness:chain", format!("{:?}", e))),
    };
    vm.reset_bitmaps();
    let nops = if small() { r.range(1, 10) } else { r.range(1, 40) } as usize;
    let res = (|| {
        let rd = Reader::from_descriptor_chain(&vm.mem, chain).map_err(|e| ("C04:reader:new".to_string(), format!("{:?}", e)))?;
        reader_ops(r, rd, &data, nops, &mut trace, use_fd)?;
        let d = vm.diff();
        if let Some(s) = d.stray {
            return fail("C04:reader:stray", s);
        }
        if d.wmod.iter().any(|m| *m) {
            return fail("C04:reader:wrote", "a reader modified writable guest memory".into());
        }
        if !vm.dirty_pages().is_empty() {
            return fail("C17:reader-marked-dirty", format!("reading marked pages dirty: {:?}", vm.dirty_pages()));
        }
        Ok(())
    })();
    (VCase { shape: sh, trace }, res)
}

// ------------------------------------------------------------------------------------------------
// fusedev (native only)
// ------------------------------------------------------------------------------------------------

#[cfg(not(miri))]
fn fusedev_reader_case(r: &mut Rng, trace: &mut Vec<String>) -> Result<(), Fail> {
    let rlen = if r.chance(1, 6) { r.below(20000) as usize } else { r.below(600) as usize };
    let data = r.bytes(rlen);
    let mut arena = vec![0x5Au8; rlen + 128];
    arena[64..64 + rlen].copy_from_slice(&data);
    let nops = r.range(1, 40) as usize;
    {
        let buf = &mut arena[64..64 + rlen];
        let rd: Reader<'_, ()> = Reader::from_fuse_buffer(FuseBuf::new(buf)).unwrap();
        let ufd = r.chance(1, 2);
        reader_ops(r, rd, &data, nops, trace, ufd)?;
    }
    if arena[..64].iter().any(|b| *b != 0x5A) || arena[64 + rlen..].iter().any(|b| *b != 0x5A) || arena[64..64 + rlen] != data[..] {
        return fail("C04:reader:stray-fusedev", "reader modified its buffer or the guard bands".into());
    }
    Ok(())
}

#[cfg(not(miri))]
fn fusedev_writer_case(r: &mut Rng, sock: &vkit::xport::SeqSock, trace: &mut Vec<String>) -> Result<usize, Fail> {
    let cap = if r.chance(1, 6) { r.below(20000) as usize } else { r.below(500) as usize };
    let mut arena = vec![0x5Au8; cap + 128];
    let src_data = r.bytes(3000);
    let mut src = TFile::new(src_data, r.chance(1, 2));
    let mut expect: Vec<u8> = Vec::new();
    let mut expect_record = true;
    let res: Result<(), Fail> = (|| {
        let buf = unsafe { std::slice::from_raw_parts_mut(arena.as_mut_ptr().add(64), cap) };
        let mut w = FuseDevWriter::<()>::new(sock.wr, buf).unwrap();
        if w.available_bytes() != cap || w.bytes_written() != 0 {
            return fail("C04:fwriter:capacity", format!("fresh writer over {} bytes: available {} written {}", cap, w.available_bytes(), w.bytes_written()));
        }
        if r.chance(1, 3) {
            // one-shot unbuffered writer
            let n = match r.below(4) {
                0 => cap,
                1 => cap + r.range(1, 8) as usize,
                _ => r.below(cap as u64 + 1) as usize,
            };
            let kind = r.below(5);
            let d = r.bytes(n);
            trace.push(format!("unbuffered op{} n={}", kind, n));
            let off = r.below(src.model.len() as u64) as usize;
            let out: Result<std::io::Result<usize>, String> = guarded(|| match kind {
                0 => w.write(&d),
                1 => {
                    let a = d.len() / 2;
                    w.write_vectored(&[IoSlice::new(&d[..a]), IoSlice::new(&d[a..])])
                }
                2 => w.write_all(&d).map(|_| n),
                3 => with_file!(src, f, w.write_from(&mut *f, n)),
                _ => with_file!(src, f, w.write_from_at(&mut *f, n, off as u64)),
            });
            let out = out.map_err(|p| ("C04:fwriter:panic:unbuffered".to_string(), p))?;
            if n > cap {
                if out.is_ok() {
                    return fail("C04:fwriter:overflow:unbuffered", format!("one-shot write of {} into capacity {} succeeded", n, cap));
                }
                expect_record = false;
            } else {
                let data: Vec<u8> = match kind {
                    0..=2 => d.clone(),
                    3 => src.model[..n.min(src.model.len())].to_vec(),
                    _ => src.model[off..(off + n).min(src.model.len())].to_vec(),
                };
                match out {
                    Ok(k) if k == data.len() => {}
                    other => return fail("C04:fwriter:count:unbuffered", format!("one-shot write of {} returned {:?}, expected Ok({})", n, other, data.len())),
                }
                expect = data;
                // zero-length write()/writev() on the socket produce no record / an empty one
                expect_record = !expect.is_empty();
                if w.bytes_written() != expect.len() {
                    return fail("C04:fwriter:counters:unbuffered", format!("bytes_written {} after writing {}", w.bytes_written(), expect.len()));
                }
            }
            Ok(())
        } else {
            // split header/data writers, any number of ops, one commit
            let k = match r.below(4) {
                0 => 0,
                1 => 16.min(cap),
                2 => cap,
                _ => r.below(cap as u64 + 1) as usize,
            };
            trace.push(format!("split_at({})", k));
            let mut tail = match w.split_at(k) {
                Ok(t) => t,
                Err(e) => return fail("C04:fwriter:split", format!("split_at({}) of capacity {} failed: {:?}", k, cap, e)),
            };
            if w.split_at(k + 1).is_ok() && k + 1 > k {
                // self now has capacity k: splitting beyond must fail
                return fail("C04:fwriter:split", format!("split_at({}) on a writer of capacity {} succeeded", k + 1, k));
            }
            if r.chance(1, 4) {
                // split the (now buffered) head a second time, possibly inside the data it already holds:
                // the new writer must start with the bytes behind the split point as already written
                drop(tail);
                let n1 = r.below(k as u64 + 1) as usize;
                let d1 = r.bytes(n1);
                trace.push(format!("head.write_all({})", n1));
                guarded(|| w.write_all(&d1)).map_err(|p| ("C04:fwriter:panic:buffered".to_string(), p))?.map_err(|e| ("C04:fwriter:count:buffered".to_string(), format!("write_all of {} into a head of capacity {} failed: {:?}", n1, k, e)))?;
                let k2 = r.below(k as u64 + 1) as usize;
                trace.push(format!("head.split_at({})", k2));
                let mut mid = match w.split_at(k2) {
                    Ok(t) => t,
                    Err(e) => return fail("C04:fwriter:split", format!("second split_at({}) of a head of capacity {} failed: {:?}", k2, k, e)),
                };
                let mut hd: Vec<u8> = d1[..n1.min(k2)].to_vec();
                let mut md: Vec<u8> = d1[n1.min(k2)..].to_vec();
                if w.bytes_written() != hd.len() || w.available_bytes() != k2 - hd.len() || mid.bytes_written() != md.len() || mid.available_bytes() != (k - k2) - md.len() {
                    return fail(
                        "C04:fwriter:counters:second-split",
                        format!(
                            "{} bytes written, split at {} of capacity {}: head written {} available {}, new writer written {} available {}; expected {} / {} and {} / {}",
                            n1, k2, k, w.bytes_written(), w.available_bytes(), mid.bytes_written(), mid.available_bytes(), hd.len(), k2 - hd.len(), md.len(), (k - k2) - md.len()
                        ),
                    );
                }
                for _ in 0..r.range(0, 4) {
                    let on_head = r.chance(1, 2);
                    let (wr, model, lim) = if on_head { (&mut w, &mut hd, k2) } else { (&mut mid, &mut md, k - k2) };
                    let n = r.below((lim - model.len()) as u64 + 1) as usize;
                    let d = r.bytes(n);
                    trace.push(format!("{}.write_all({})", if on_head { "head" } else { "mid" }, n));
                    guarded(|| wr.write_all(&d)).map_err(|p| ("C04:fwriter:panic:buffered".to_string(), p))?.map_err(|e| ("C04:fwriter:count:buffered".to_string(), format!("write_all({}) failed: {:?}", n, e)))?;
                    model.extend_from_slice(&d);
                }
                trace.push("commit".into());
                let mw: Writer<'_, ()> = Writer::FuseDev(mid);
                let c = guarded(|| w.commit(Some(&mw))).map_err(|p| ("C04:fwriter:panic:commit".to_string(), p))?;
                expect = [hd, md].concat();
                expect_record = !expect.is_empty();
                return match c {
                    Ok(n) if n == expect.len() => Ok(()),
                    other => fail("C04:fwriter:commit", format!("commit returned {:?}, the two writers hold {} bytes", other, expect.len())),
                };
            }
            let mut hd: Vec<u8> = Vec::new();
            let mut td: Vec<u8> = Vec::new();
            let nops = r.range(0, 12);
            for _ in 0..nops {
                let on_head = r.chance(1, 2);
                let (wr, model, lim) = if on_head { (&mut w, &mut hd, k) } else { (&mut tail, &mut td, cap - k) };
                let avail = lim - model.len();
                let n = match r.below(5) {
                    0 => 0,
                    1 => avail,
                    2 => avail + r.range(1, 6) as usize,
                    _ => r.below(avail as u64 + 1) as usize,
                };
                let kind = r.below(6);
                // kind 3 writes a 16-byte object when n >= 16
                let n = if kind == 3 && n >= 16 { 16 } else { n };
                let d = r.bytes(n);
                let off = r.below(src.model.len() as u64) as usize;
                trace.push(format!("{}.op{}({})", if on_head { "head" } else { "tail" }, kind, n));
                let out: Result<std::io::Result<usize>, String> = guarded(|| match kind {
                    0 => wr.write(&d),
                    1 => {
                        let a = d.len() / 3;
                        wr.write_vectored(&[IoSlice::new(&d[..a]), IoSlice::new(&[]), IoSlice::new(&d[a..])])
                    }
                    2 => wr.write_all(&d).map(|_| n),
                    3 => {
                        if n >= 16 {
                            let h = OutHeader { len: 1, error: 2, unique: 3 };
                            wr.write_obj(h).map(|_| 16)
                        } else {
                            wr.write(&d)
                        }
                    }
                    4 => with_file!(src, f, wr.write_from_at(&mut *f, n, off as u64)),
                    _ => with_file!(src, f, wr.write_from_at(&mut *f, n, 0)),
                });
                let out = out.map_err(|p| ("C04:fwriter:panic:buffered".to_string(), p))?;
                if n > avail {
                    if out.is_ok() {
                        return fail("C04:fwriter:overflow:buffered", format!("write of {} with {} available succeeded", n, avail));
                    }
                } else {
                    let data: Vec<u8> = match kind {
                        0..=2 => d.clone(),
                        3 => {
                            if n >= 16 {
                                OutHeader { len: 1, error: 2, unique: 3 }.as_slice().to_vec()
                            } else {
                                d.clone()
                            }
                        }
                        4 => src.model[off..(off + n).min(src.model.len())].to_vec(),
                        _ => src.model[..n.min(src.model.len())].to_vec(),
                    };
                    match out {
                        Ok(g) if g == data.len() => model.extend_from_slice(&data),
                        other => return fail("C04:fwriter:count:buffered", format!("write of {} returned {:?}, expected Ok({})", n, other, data.len())),
                    }
                }
                let (wr, model, lim) = if on_head { (&w, &hd, k) } else { (&tail, &td, cap - k) };
                if wr.bytes_written() != model.len() || wr.available_bytes() != lim - model.len() {
                    return fail(
                        "C04:fwriter:counters:buffered",
                        format!("bytes_written {} available {} ; model {} / {}", wr.bytes_written(), wr.available_bytes(), model.len(), lim - model.len()),
                    );
                }
            }
            trace.push("commit".into());
            let tw: Writer<'_, ()> = Writer::FuseDev(tail);
            let c = guarded(|| w.commit(Some(&tw))).map_err(|p| ("C04:fwriter:panic:commit".to_string(), p))?;
            expect = [hd, td].concat();
            expect_record = !expect.is_empty();
            match c {
                Ok(n) if n == expect.len() => Ok(()),
                other => fail("C04:fwriter:commit", format!("commit returned {:?}, the two writers hold {} bytes", other, expect.len())),
            }
        }
    })();
    let recs = sock.drain();
    res?;
    if arena[..64].iter().any(|b| *b != 0x5A) || arena[64 + cap..].iter().any(|b| *b != 0x5A) {
        return fail("C04:fwriter:stray", "guard band around the reply buffer modified".into());
    }
    if expect_record {
        if recs.len() != 1 {
            return fail("C04:fwriter:records", format!("{} write calls reached the device, expected exactly one of {} bytes", recs.len(), expect.len()));
        }
        if recs[0] != expect {
            let first = recs[0].iter().zip(expect.iter()).position(|(a, b)| a != b);
            return fail("C04:fwriter:data", format!("device received {} bytes, expected {} (first difference {:?})", recs[0].len(), expect.len(), first));
        }
    } else if recs.iter().any(|r| !r.is_empty()) {
        return fail("C04:fwriter:records", format!("device received {} records although nothing should have been emitted", recs.len()));
    }
    Ok(expect.len())
}

// ------------------------------------------------------------------------------------------------
// buffer adapters: FileVolatileSlice as Bytes<usize>; FileReadWriteVolatile for File
// ------------------------------------------------------------------------------------------------

fn adapter_case(r: &mut Rng, trace: &mut Vec<String>) -> Result<(), Fail> {
    let len = if small() { r.below(48) as usize } else { r.below(300) as usize };
    let init = r.bytes(len);
    // both views get 8-byte aligned storage so that alignment-sensitive atomics behave alike
    let mut a_store = vec![0u64; len / 8 + 1];
    let mut b_store = vec![0u64; len / 8 + 1];
    let a: &mut [u8] = unsafe { std::slice::from_raw_parts_mut(a_store.as_mut_ptr() as *mut u8, len) }; // viewed through FileVolatileSlice
    let b: &mut [u8] = unsafe { std::slice::from_raw_parts_mut(b_store.as_mut_ptr() as *mut u8, len) }; // plain VolatileSlice (reference)
    a.copy_from_slice(&init);
    b.copy_from_slice(&init);
    let nops = r.range(1, 20);
    for _ in 0..nops {
        let fs = unsafe { FileVolatileSlice::from_raw_ptr(a.as_mut_ptr(), a.len()) };
        let vs = unsafe { VolatileSlice::new(b.as_mut_ptr(), b.len()) };
        if fs.len() != len || fs.is_empty() != (len == 0) {
            return fail("C04:adapter:len", "len()/is_empty() wrong".into());
        }
        let addr = match r.below(5) {
            0 => 0,
            1 => len,
            2 => len + 1,
            _ => r.below(len as u64 + 1) as usize,
        };
        let n = r.below(40) as usize;
        let op = r.below(8);
        let cls = |x: &Result<usize, vm_memory::VolatileMemoryError>| x.as_ref().map(|v| *v).map_err(|_| ());
        match op {
            0 => {
                trace.push(format!("write({}, @{})", n, addr));
                let d = r.bytes(n);
                let x = Bytes::write(&fs, &d, addr);
                let y = Bytes::write(&vs, &d, addr);
                if cls(&x) != cls(&y) {
                    return fail("C04:adapter:write", format!("write({}, @{}) -> {:?}, plain view -> {:?}", n, addr, x, y));
                }
            }
            1 => {
                trace.push(format!("read({}, @{})", n, addr));
                let mut o1 = vec![0xEEu8; n];
                let mut o2 = vec![0xEEu8; n];
                let x = Bytes::read(&fs, &mut o1, addr);
                let y = Bytes::read(&vs, &mut o2, addr);
                if cls(&x) != cls(&y) || (x.is_ok() && o1 != o2) {
                    return fail("C04:adapter:read", format!("read({}, @{}) -> {:?} / plain view {:?} (data equal: {})", n, addr, x, y, o1 == o2));
                }
            }
            2 => {
                trace.push(format!("write_slice({}, @{})", n, addr));
                let d = r.bytes(n);
                let x = fs.write_slice(&d, addr).is_ok();
                let y = vs.write_slice(&d, addr).is_ok();
                if x != y {
                    return fail("C04:adapter:write_slice", format!("write_slice({}, @{}) ok={} plain view ok={}", n, addr, x, y));
                }
            }
            3 => {
                trace.push(format!("read_slice({}, @{})", n, addr));
                let fill = r.bytes(n);
                let mut o1 = fill.clone();
                let mut o2 = fill.clone();
                let x = fs.read_slice(&mut o1, addr).is_ok();
                let y = vs.read_slice(&mut o2, addr).is_ok();
                if x != y || (x && o1 != o2) {
                    return fail(
                        "C04:adapter:read_slice",
                        format!("read_slice({}, @{}): ok={} plain view ok={}; returned data equals the underlying bytes: {}", n, addr, x, y, o1 == o2),
                    );
                }
            }
            4 => {
                trace.push(format!("store/load u32 @{}", addr));
                let v = r.next() as u32;
                let x = fs.store(v, addr, std::sync::atomic::Ordering::Relaxed).is_ok();
                let y = vs.store(v, addr, std::sync::atomic::Ordering::Relaxed).is_ok();
                let lx: Result<u32, _> = fs.load(addr, std::sync::atomic::Ordering::Relaxed);
                let ly: Result<u32, _> = vs.load(addr, std::sync::atomic::Ordering::Relaxed);
                if x != y || lx.ok() != ly.ok() {
                    return fail("C04:adapter:store-load", format!("store/load @{} differ from the plain view", addr));
                }
            }
            5 => {
                trace.push(format!("write_obj/read_obj u64 @{}", addr));
                let v = r.next();
                let x = fs.write_obj(v, addr).is_ok();
                let y = vs.write_obj(v, addr).is_ok();
                let lx: Result<u64, _> = fs.read_obj(addr);
                let ly: Result<u64, _> = vs.read_obj(addr);
                if x != y || lx.ok() != ly.ok() {
                    return fail("C04:adapter:obj", format!("write_obj/read_obj @{} differ from the plain view", addr));
                }
            }
            6 => {
                trace.push(format!("offset({})", addr));
                match fs.offset(addr) {
                    Ok(s2) => {
                        if addr > len || s2.len() != len - addr || s2.as_ptr() as usize != a.as_ptr() as usize + addr {
                            return fail("C04:adapter:offset", format!("offset({}) of a {}-byte view gave len {}", addr, len, s2.len()));
                        }
                    }
                    Err(_) => {
                        if addr <= len {
                            return fail("C04:adapter:offset", format!("offset({}) of a {}-byte view failed", addr, len));
                        }
                    }
                }
            }
            _ => {
                trace.push("as_volatile_slice".into());
                let s2 = fs.as_volatile_slice();
                if s2.len() != len {
                    return fail("C04:adapter:as_volatile_slice", "length differs".into());
                }
            }
        }
        if a != b {
            let k = a.iter().zip(b.iter()).position(|(x, y)| x != y);
            return fail("C04:adapter:bytes", format!("after {:?} the underlying bytes differ from the plain view at {:?}", trace.last(), k));
        }
    }
    Ok(())
}

/// FileReadWriteVolatile for File vs a Vec model.
#[cfg(not(miri))]
fn file_traits_case(r: &mut Rng, trace: &mut Vec<String>) -> Result<(), Fail> {
    use std::io::{Seek, SeekFrom};
    let ilen = r.below(200) as usize;
    let init = r.bytes(ilen);
    let mut f = vkit::scriptfs::memfd_with(&init);
    f.seek(SeekFrom::Start(0)).unwrap();
    let mut model = init.clone();
    let mut pos = 0usize;
    let nops = r.range(1, 16);
    for _ in 0..nops {
        let nb = r.range(1, 3) as usize;
        let mut bufs: Vec<Vec<u8>> = (0..nb).map(|_| { let l = r.below(40) as usize; r.bytes(l) }).collect();
        let orig = bufs.clone();
        let slices: Vec<FileVolatileSlice> = bufs.iter_mut().map(|b| unsafe { FileVolatileSlice::from_raw_ptr(b.as_mut_ptr(), b.len()) }).collect();
        let total: usize = orig.iter().map(|b| b.len()).sum();
        let off = r.below(model.len() as u64 + 10) as usize;
        let op = r.below(8);
        let put = |model: &mut Vec<u8>, at: usize, d: &[u8]| {
            if d.is_empty() {
                return;
            }
            if model.len() < at + d.len() {
                model.resize(at + d.len(), 0);
            }
            model[at..at + d.len()].copy_from_slice(d);
        };
        let flat: Vec<u8> = orig.concat();
        match op {
            0 | 1 => {
                // read (vectored) at position
                trace.push(format!("read_vectored_volatile({:?}) pos={}", orig.iter().map(|b| b.len()).collect::<Vec<_>>(), pos));
                let got = if op == 0 { f.read_vectored_volatile(&slices) } else { f.read_volatile(slices[0]) };
                let want_total = if op == 0 { total } else { orig[0].len() };
                let k = want_total.min(model.len().saturating_sub(pos));
                if got.as_ref().ok() != Some(&k) {
                    return fail("C04:file:read", format!("read of {} at {} (file {} bytes) returned {:?}", want_total, pos, model.len(), got));
                }
                let out: Vec<u8> = bufs.concat();
                let o = pos.min(model.len());
                if out[..k] != model[o..o + k] || out[k..] != flat[k..] {
                    return fail("C04:file:read-data", "data read differs from file content or bytes beyond the count were touched".into());
                }
                pos += k;
            }
            2 | 3 => {
                trace.push(format!("write_vectored_volatile({:?}) pos={}", orig.iter().map(|b| b.len()).collect::<Vec<_>>(), pos));
                let got = if op == 2 { f.write_vectored_volatile(&slices) } else { f.write_volatile(slices[0]) };
                let d = if op == 2 { flat.clone() } else { orig[0].clone() };
                if got.as_ref().ok() != Some(&d.len()) {
                    return fail("C04:file:write", format!("write of {} returned {:?}", d.len(), got));
                }
                put(&mut model, pos, &d);
                pos += d.len();
            }
            4 | 5 => {
                trace.push(format!("read_vectored_at_volatile({:?}, {})", orig.iter().map(|b| b.len()).collect::<Vec<_>>(), off));
                let got = if op == 4 { f.read_vectored_at_volatile(&slices, off as u64) } else { f.read_at_volatile(slices[0], off as u64) };
                let want_total = if op == 4 { total } else { orig[0].len() };
                let k = want_total.min(model.len().saturating_sub(off));
                if got.as_ref().ok() != Some(&k) {
                    return fail("C04:file:read_at", format!("read_at of {} at {} (file {} bytes) returned {:?}", want_total, off, model.len(), got));
                }
                let out: Vec<u8> = bufs.concat();
                let o = off.min(model.len());
                if out[..k] != model[o..o + k] || out[k..] != flat[k..] {
                    return fail("C04:file:read_at-data", "data read differs from file content".into());
                }
            }
            _ => {
                trace.push(format!("write_vectored_at_volatile({:?}, {})", orig.iter().map(|b| b.len()).collect::<Vec<_>>(), off));
                let got = if op == 6 { f.write_vectored_at_volatile(&slices, off as u64) } else { f.write_all_at_volatile(slices[0], off as u64).map(|_| orig[0].len()) };
                let d = if op == 6 { flat.clone() } else { orig[0].clone() };
                if got.as_ref().ok() != Some(&d.len()) {
                    return fail("C04:file:write_at", format!("write_at of {} returned {:?}", d.len(), got));
                }
                put(&mut model, off, &d);
            }
        }
        let real_pos = f.seek(SeekFrom::Current(0)).unwrap() as usize;
        if real_pos != pos {
            return fail("C04:file:pos", format!("file position {} but model {}", real_pos, pos));
        }
        use std::os::unix::fs::FileExt;
        let mut cur = vec![0u8; f.metadata().unwrap().len() as usize];
        f.read_exact_at(&mut cur, 0).unwrap();
        if cur != model {
            return fail("C04:file:content", "file content differs from the model".into());
        }
    }
    Ok(())
}

// ------------------------------------------------------------------------------------------------

fn run_c04(args: &Args, rep: &mut Report) {
    vkit::xport::install_panic_hook();
    #[cfg(not(miri))]
    let sock = vkit::xport::SeqSock::new();
    for idx in args.indices() {
        if rep.too_many() {
            break;
        }
        let mut r = Rng::derive(args.seed, "C04", idx, 0);
        let kind = if cfg!(miri) { [0u64, 1, 4][(idx % 3) as usize] } else { idx % 6 };
        let use_fd = !cfg!(miri) && r.chance(1, 2);
        let names = ["virtio-reader", "virtio-writer", "fusedev-reader", "fusedev-writer", "adapter", "file-traits"];
        rep.begin(idx, names[kind as usize]);
        let mut trace: Vec<String> = Vec::new();
        let mut shape_desc = String::new();
        let res: Result<(), Fail> = match kind {
            0 => {
                let (c, res) = virtio_reader_case(&mut r, use_fd);
                trace = c.trace;
                shape_desc = c.shape.describe();
                res
            }
            1 => {
                let (c, res) = virtio_writer_case(&mut r, true, false, use_fd);
                trace = c.trace;
                shape_desc = c.shape.describe();
                res.map(|(n, _)| rep.count("bytes_written_and_verified", n as u64))
            }
            #[cfg(not(miri))]
            2 => fusedev_reader_case(&mut r, &mut trace),
            #[cfg(not(miri))]
            3 => fusedev_writer_case(&mut r, &sock, &mut trace).map(|n| rep.count("bytes_delivered_and_verified", n as u64)),
            4 => adapter_case(&mut r, &mut trace),
            #[cfg(not(miri))]
            _ => file_traits_case(&mut r, &mut trace),
            #[cfg(miri)]
            _ => Ok(()),
        };
        rep.eval();
        rep.count(&format!("kind:{}", names[kind as usize]), 1);
        rep.count("operations", trace.len() as u64);
        let opk: Vec<&str> = trace.iter().take(6).map(|t| t.split('(').next().unwrap_or("")).map(|t| t.split('.').last().unwrap_or("")).collect();
        rep.key(&format!("{}|{}|segs{}|{}", names[kind as usize], opk.join(","), shape_desc.split_whitespace().count().min(8), res.is_ok()));
        match res {
            Err((sig, why)) if sig.starts_with("harness:") => rep.inconclusive(&sig, J::s(why)),
            Err((sig, why)) => rep.violation(
                &sig,
                idx,
                J::obj(vec![("why", J::s(why)), ("kind", J::s(names[kind as usize])), ("chain", J::s(&shape_desc)), ("ops", J::A(trace.iter().map(J::s).collect()))]),
            ),
            Ok(()) => {
                if rep.want_sample() && trace.len() > 3 {
                    rep.sample(J::obj(vec![("kind", J::s(names[kind as usize])), ("chain", J::s(&shape_desc)), ("ops", J::A(trace.iter().take(12).map(J::s).collect()))]));
                }
            }
        }
    }
}

mod c17;

fn main() {
    let args = Args::parse();
    let mut rep = Report::new(&args);
    match args.prop.as_str() {
        "C04" => run_c04(&args, &mut rep),
        "C17" => c17::run(&args, &mut rep),
        other => {
            eprintln!("xport: unknown property {}", other);
            std::process::exit(2);
        }
    }
    rep.finish();
}

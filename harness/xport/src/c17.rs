//! C17 — guest memory written by the server is always marked dirty (and nothing else is).
use std::collections::BTreeSet;
use std::sync::Arc;

use fuse_backend_rs::api::server::Server;
use vkit::gen::{gen_request, GenOpts, OUT_HDR};
use vkit::json::J;
use vkit::prng::Rng;
use vkit::run::{Args, Report};
use vkit::scriptfs::{Res, Script, ScriptFs};
use vkit::xport::run_virtio;

use crate::{pages_of_written, shape, small, virtio_reader_case, virtio_writer_case};

const PAYLOAD_OPS: &[&str] = &[
    "FUSE_READ", "FUSE_READDIR", "FUSE_READDIRPLUS", "FUSE_GETXATTR", "FUSE_LISTXATTR", "FUSE_READLINK", "FUSE_LOOKUP", "FUSE_GETATTR", "FUSE_CREATE",
    "FUSE_STATFS", "FUSE_IOCTL", "FUSE_OPEN", "FUSE_WRITE", "FUSE_FORGET", "FUSE_INIT", "FUSE_UNLINK",
];

pub fn run(args: &Args, rep: &mut Report) {
    vkit::xport::install_panic_hook();
    for idx in args.indices() {
        if rep.too_many() {
            break;
        }
        let mut r = Rng::derive(args.seed, "C17", idx, 0);
        let kind = idx % 4;
        match kind {
            0 | 1 => {
                // writer API sequences on page-edge layouts
                rep.begin(idx, "writer-sequence");
                let use_fd = !cfg!(miri) && r.chance(1, 2);
                let (c, res) = virtio_writer_case(&mut r, true, true, use_fd);
                rep.eval();
                rep.count("kind:writer-sequence", 1);
                let opk: Vec<&str> = c.trace.iter().take(5).map(|t| t.split('(').next().unwrap_or("")).map(|t| t.split('.').last().unwrap_or("")).collect();
                match res {
                    Ok((n, pages)) => {
                        rep.count("bytes_written", n as u64);
                        rep.count("dirty_pages_expected_and_found", pages as u64);
                        rep.key(&format!("seq|{}|pages{}|regions{}", opk.join(","), pages.min(6), c.shape.regions.len()));
                        if rep.want_sample() && pages > 1 {
                            rep.sample(J::obj(vec![("chain", J::s(c.shape.describe())), ("ops", J::A(c.trace.iter().take(10).map(J::s).collect())), ("dirty_pages", J::U(pages as u64))]));
                        }
                    }
                    Err((sig, why)) if sig.starts_with("harness:") => rep.inconclusive(&sig, J::s(why)),
                    Err((sig, why)) => {
                        // C04-class failures found here are still failures of the writer; keep the C17 prefix only for bitmap findings
                        rep.violation(&sig.replace("C04:", "C17:writer:"), idx, J::obj(vec![("why", J::s(why)), ("chain", J::s(c.shape.describe())), ("ops", J::A(c.trace.iter().map(J::s).collect()))]));
                    }
                }
            }
            2 => {
                rep.begin(idx, "reader-sequence");
                let ufd = !cfg!(miri) && r.chance(1, 2);
                let (c, res) = virtio_reader_case(&mut r, ufd);
                rep.eval();
                rep.count("kind:reader-sequence", 1);
                rep.key(&format!("rd|segs{}|ops{}", c.shape.segs.len().min(8), c.trace.len().min(10)));
                if let Err((sig, why)) = res {
                    if sig.starts_with("C17:") {
                        rep.violation(&sig, idx, J::obj(vec![("why", J::s(why)), ("chain", J::s(c.shape.describe())), ("ops", J::A(c.trace.iter().map(J::s).collect()))]));
                    }
                }
            }
            _ => {
                // whole requests through the server
                let opname = PAYLOAD_OPS[((idx / 4) % PAYLOAD_OPS.len() as u64) as usize];
                rep.begin(idx, opname);
                let opts = GenOpts { max_payload: if small() { 200 } else { 12000 }, long_names: false };
                let g = gen_request(&mut r, opname, &opts);
                let script = Script { err_permille: 150, max_dir_entries: if small() { 4 } else { 60 }, ..Default::default() };
                let fs = Arc::new(ScriptFs::new(r.next(), script));
                let srv = Server::new(fs.clone());
                let cap = OUT_HDR + g.req_size.unwrap_or(0) as usize + if small() { 640 } else { r.below(9000) as usize + 600 };
                let sh = shape(&mut r, g.bytes.len(), cap, true);
                let out = run_virtio(&srv, &sh, &g.bytes, None);
                rep.eval();
                rep.count(&format!("op:{}", opname), 1);
                let log = fs.take_log();
                let dirty: BTreeSet<(usize, usize)> = out.dirty.iter().copied().collect();
                let touched: BTreeSet<(usize, usize)> = out.touched_pages.iter().copied().collect();
                rep.count("request_dirty_pages", dirty.len() as u64);
                rep.key(&format!("req|{}|dirty{}|touched{}|regions{}|replies{}", opname, dirty.len().min(6), touched.len().min(6), sh.regions.len(), out.records.len()));
                if out.panic.is_some() {
                    rep.inconclusive("panic", J::s(format!("{:?}", out.panic)));
                    continue;
                }
                let mut bad: Option<(String, String)> = None;
                if let Some(p) = touched.difference(&dirty).next() {
                    bad = Some((format!("C17:request:not-marked:{}", opname), format!("page {:?} was modified by the server but is not marked dirty (dirty {:?})", p, dirty)));
                }
                // precision: nothing outside the pages of the reply [0, len)
                let readdir_err = matches!(log.first().map(|c| &c.res), Some(Res::Dir { final_err: Some(_), .. }));
                if bad.is_none() && !readdir_err {
                    let len = out.records.first().map(|r| r.len()).unwrap_or(0);
                    let mut written = vec![false; sh.writable_len()];
                    for w in written.iter_mut().take(len) {
                        *w = true;
                    }
                    let allowed = pages_of_written(&sh, &written);
                    if let Some(p) = dirty.difference(&allowed).next() {
                        bad = Some((
                            format!("C17:request:over-marked:{}", opname),
                            format!("page {:?} is marked dirty but the {}-byte reply does not reach it (reply pages {:?})", p, len, allowed),
                        ));
                    }
                }
                if let Some((sig, why)) = bad {
                    rep.violation(
                        &sig,
                        idx,
                        J::obj(vec![("why", J::s(why)), ("op", J::s(opname)), ("chain", J::s(sh.describe())), ("fs_log", J::A(log.iter().map(|c| c.j()).collect()))]),
                    );
                }
            }
        }
    }
}

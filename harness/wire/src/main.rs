fn main() {}

//! wire-level monitors: C01 C02 C03 C12 (C20 lives in the async build).
mod c01;
mod c02;
mod c03;
mod c12;
mod common;

use vkit::run::{Args, Report};

fn main() {
    let args = Args::parse();
    let mut rep = Report::new(&args);
    match args.prop.as_str() {
        "C01" => c01::run(&args, &mut rep),
        "C02" => c02::run(&args, &mut rep),
        "C03" => c03::run(&args, &mut rep),
        "C12" => c12::run(&args, &mut rep),
        other => {
            eprintln!("wire: unknown property {}", other);
            std::process::exit(2);
        }
    }
    rep.finish();
}

//! Shared pieces of the wire-level monitors (C01 C02 C03 C12).
use std::sync::Arc;

use fuse_backend_rs::api::server::Server;
use vkit::gen::{GenReq, OUT_HDR};
use vkit::json::J;
use vkit::klayout::{get, ksize};
use vkit::prng::Rng;
use vkit::scriptfs::{NopCache, Script, ScriptFs};
#[cfg(not(miri))]
use vkit::xport::SeqSock;
use vkit::xport::{run_virtio, Outcome, VShape};

#[derive(Clone, Debug)]
pub enum Tx {
    Fd { aliased: bool },
    Virtio { shape: VShape },
}

impl Tx {
    pub fn class(&self) -> String {
        match self {
            Tx::Fd { aliased: false } => "fusedev".into(),
            Tx::Fd { aliased: true } => "fusedev-aliased".into(),
            Tx::Virtio { shape } => {
                let nr = shape.segs.iter().filter(|s| !s.writable).count();
                let nw = shape.segs.iter().filter(|s| s.writable).count();
                let z = shape.segs.iter().any(|s| s.len == 0);
                let cls = |n: usize| match n {
                    0 => "0",
                    1 => "1",
                    2..=3 => "2-3",
                    _ => "4+",
                };
                format!("virtio r{} w{} regions{} zero{}", cls(nr), cls(nw), shape.regions.len(), z)
            }
        }
    }
    pub fn j(&self) -> J {
        match self {
            Tx::Fd { aliased } => J::obj(vec![("transport", J::s("fusedev")), ("aliased", J::Bool(*aliased))]),
            Tx::Virtio { shape } => J::obj(vec![("transport", J::s("virtio")), ("chain", J::s(shape.describe()))]),
        }
    }
}

/// Random descriptor-chain shape for `rlen` readable and `wlen` writable bytes.
pub fn gen_shape(r: &mut Rng, rlen: usize, wlen: usize) -> VShape {
    let style = r.below(6);
    let mut rcuts = Vec::new();
    let mut wcuts = Vec::new();
    match style {
        0 => {}
        1 => {
            // header split from body, reply header split from payload (what the Linux client does)
            if rlen > 40 {
                rcuts.push(40);
            }
            if wlen > 16 {
                wcuts.push(16);
            }
        }
        2 => {
            // a few one-byte descriptors in front
            for i in 1..=r.range(1, 4) as usize {
                rcuts.push(i);
                wcuts.push(i);
            }
        }
        _ => {
            for _ in 0..r.range(1, 6) {
                rcuts.push(r.below(rlen as u64 + 1) as usize);
            }
            for _ in 0..r.range(0, 5) {
                wcuts.push(r.below(wlen as u64 + 1) as usize);
            }
            if r.chance(1, 3) {
                // duplicate cut => zero-length descriptor
                if let Some(c) = rcuts.first().copied() {
                    rcuts.push(c);
                }
                if let Some(c) = wcuts.first().copied() {
                    wcuts.push(c);
                }
            }
        }
    }
    let nregions = if r.chance(1, 4) { r.range(2, 3) as usize } else { 1 };
    let small = cfg!(miri);
    let gaps: Vec<usize> = (0..4)
        .map(|_| match r.below(6) {
            0 => 0,
            1 => 1,
            2 => 7,
            3 if !small => 4096,
            4 if !small => r.below(5000) as usize,
            4 => r.below(40) as usize,
            _ => 0,
        })
        .collect();
    let start = match r.below(4) {
        _ if small => r.below(64) as usize,
        0 => 0,
        1 => 4095,
        2 => 4096 - (rlen.min(39) / 2),
        _ => r.below(8192) as usize,
    };
    VShape::layout(rlen, &rcuts, wlen, &wcuts, nregions, &gaps, start)
}

pub fn pick_tx(r: &mut Rng, rlen: usize, wlen: usize) -> Tx {
    if cfg!(miri) {
        return Tx::Virtio { shape: gen_shape(r, rlen, wlen) };
    }
    match r.below(5) {
        0 | 1 => Tx::Fd { aliased: false },
        2 => Tx::Fd { aliased: true },
        _ => Tx::Virtio { shape: gen_shape(r, rlen, wlen) },
    }
}

pub struct Env {
    #[cfg(not(miri))]
    pub sock: SeqSock,
}

impl Env {
    pub fn new() -> Env {
        vkit::xport::install_panic_hook();
        Env {
            #[cfg(not(miri))]
            sock: SeqSock::new(),
        }
    }
    /// Execute one request. For fusedev `cap` is the reply buffer capacity; for virtio the shape
    /// already fixes it.
    pub fn exec(&self, srv: &Server<Arc<ScriptFs>>, tx: &Tx, req: &[u8], cap: usize, with_vu: bool) -> Outcome {
        let _ = cap;
        let mut nop = NopCache;
        let vu: Option<&mut dyn fuse_backend_rs::transport::FsCacheReqHandler> = if with_vu { Some(&mut nop) } else { None };
        match tx {
            #[cfg(not(miri))]
            Tx::Fd { aliased } => vkit::xport::run_fusedev(srv, &self.sock, req, cap, *aliased, vu),
            #[cfg(miri)]
            Tx::Fd { .. } => unreachable!(),
            Tx::Virtio { shape } => run_virtio(srv, shape, req, vu),
        }
    }
}

pub fn new_server(seed: u64, script: Script) -> (Arc<ScriptFs>, Server<Arc<ScriptFs>>) {
    let fs = Arc::new(ScriptFs::new(seed, script));
    let srv = Server::new(fs.clone());
    (fs, srv)
}

#[derive(Clone, Debug)]
pub struct OutHdr {
    pub len: u32,
    pub error: i32,
    pub unique: u64,
}

pub fn parse_out_header(rec: &[u8]) -> Option<OutHdr> {
    if rec.len() < ksize("fuse_out_header") {
        return None;
    }
    Some(OutHdr {
        len: get(rec, 0, "fuse_out_header", "len")? as u32,
        error: get(rec, 0, "fuse_out_header", "error")? as u32 as i32,
        unique: get(rec, 0, "fuse_out_header", "unique")?,
    })
}

/// Reply capacity that is certainly sufficient for any scripted result of `g`.
pub fn ample_capacity(g: &GenReq) -> usize {
    OUT_HDR + g.req_size.unwrap_or(0) as usize + if cfg!(miri) { 640 } else { 8192 }
}

/// Generator bounds: full size natively, small under Miri (its interpreter is ~4 orders slower).
pub fn gen_opts(big: bool) -> vkit::gen::GenOpts {
    if cfg!(miri) {
        vkit::gen::GenOpts { max_payload: 200, long_names: false }
    } else {
        vkit::gen::GenOpts { max_payload: if big { 1 << 20 } else { 8192 }, long_names: true }
    }
}

pub fn req_json(g: &GenReq) -> J {
    J::obj(vec![
        ("op", J::s(g.opname)),
        ("unique", J::U(g.unique)),
        ("nodeid", J::U(g.nodeid)),
        ("uid", J::U(g.uid as u64)),
        ("gid", J::U(g.gid as u64)),
        ("pid", J::U(g.pid as u64)),
        ("len", J::U(g.bytes.len() as u64)),
        ("bytes", J::bytes(&g.bytes)),
        ("key", J::s(&g.key)),
    ])
}

pub fn outcome_json(o: &Outcome) -> J {
    J::obj(vec![
        ("ret", J::s(format!("{:?}", o.ret))),
        ("panic", o.panic.as_ref().map(J::s).unwrap_or(J::Null)),
        ("records", J::A(o.records.iter().map(|r| J::obj(vec![("len", J::U(r.len() as u64)), ("bytes", J::bytes(r))])).collect())),
        ("stray", o.stray.as_ref().map(J::s).unwrap_or(J::Null)),
        ("transport", J::s(o.transport)),
    ])
}

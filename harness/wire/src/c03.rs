//! C03 — each reply is the exact wire encoding of what the filesystem returned.
use std::sync::Arc;

use fuse_backend_rs::api::server::Server;
use vkit::gen::{gen_request, header, Body, GenOpts, GenReq, OPS, OUT_HDR};
use vkit::json::J;
use vkit::klayout::{get, kconst, ksize};
use vkit::prng::Rng;
use vkit::run::{Args, Report};
use vkit::scriptfs::{Call, DirVals, EntryVals, ErrV, Res, Script, ScriptFs, StatVals, ERR_KINDS};

use crate::common::*;

type Fail = (String, String);

fn fld(buf: &[u8], base: usize, s: &str, f: &str, want: u64, what: &str, op: &str) -> Result<(), Fail> {
    match get(buf, base, s, f) {
        None => Err((format!("C03:{}:short:{}", op, what), format!("reply too short for {}.{}", s, f))),
        Some(got) if got != want => Err((
            format!("C03:{}:field:{}", op, what),
            format!("{}.{} on the wire = {} ({:#x}), filesystem returned {} ({:#x})", s, f, got, got, want, want),
        )),
        _ => Ok(()),
    }
}

fn check_attr(buf: &[u8], base: usize, s: &str, pfx: &str, a: &StatVals, flags: u32, op: &str) -> Result<(), Fail> {
    let f = |n: &str| format!("{}{}", pfx, n);
    fld(buf, base, s, &f("ino"), a.ino, "attr.ino", op)?;
    fld(buf, base, s, &f("size"), a.size as u64, "attr.size", op)?;
    fld(buf, base, s, &f("blocks"), a.blocks as u64, "attr.blocks", op)?;
    fld(buf, base, s, &f("atime"), a.atime as u64, "attr.atime", op)?;
    fld(buf, base, s, &f("mtime"), a.mtime as u64, "attr.mtime", op)?;
    fld(buf, base, s, &f("ctime"), a.ctime as u64, "attr.ctime", op)?;
    fld(buf, base, s, &f("atimensec"), a.atime_nsec as u32 as u64, "attr.atimensec", op)?;
    fld(buf, base, s, &f("mtimensec"), a.mtime_nsec as u32 as u64, "attr.mtimensec", op)?;
    fld(buf, base, s, &f("ctimensec"), a.ctime_nsec as u32 as u64, "attr.ctimensec", op)?;
    fld(buf, base, s, &f("mode"), a.mode as u64, "attr.mode", op)?;
    fld(buf, base, s, &f("nlink"), a.nlink as u32 as u64, "attr.nlink", op)?;
    fld(buf, base, s, &f("uid"), a.uid as u64, "attr.uid", op)?;
    fld(buf, base, s, &f("gid"), a.gid as u64, "attr.gid", op)?;
    fld(buf, base, s, &f("rdev"), a.rdev as u32 as u64, "attr.rdev", op)?;
    fld(buf, base, s, &f("blksize"), a.blksize as u32 as u64, "attr.blksize", op)?;
    fld(buf, base, s, &f("flags"), flags as u64, "attr.flags", op)?;
    Ok(())
}

/// `s` is the kernel struct holding the entry; `pfx` the path of the fuse_entry_out inside it.
pub fn check_entry(buf: &[u8], base: usize, s: &str, pfx: &str, e: &EntryVals, op: &str) -> Result<(), Fail> {
    let f = |n: &str| format!("{}{}", pfx, n);
    fld(buf, base, s, &f("nodeid"), e.inode, "entry.nodeid", op)?;
    fld(buf, base, s, &f("generation"), e.generation, "entry.generation", op)?;
    fld(buf, base, s, &f("entry_valid"), e.entry_timeout.0, "entry.entry_valid", op)?;
    fld(buf, base, s, &f("attr_valid"), e.attr_timeout.0, "entry.attr_valid", op)?;
    fld(buf, base, s, &f("entry_valid_nsec"), e.entry_timeout.1 as u64, "entry.entry_valid_nsec", op)?;
    fld(buf, base, s, &f("attr_valid_nsec"), e.attr_timeout.1 as u64, "entry.attr_valid_nsec", op)?;
    check_attr(buf, base, s, &f("attr."), &e.attr, e.attr_flags, op)
}

fn want_len(body: &[u8], n: usize, op: &str) -> Result<(), Fail> {
    if body.len() != n {
        return Err((format!("C03:{}:body-len", op), format!("reply body is {} bytes, the encoding of the result is {} bytes", body.len(), n)));
    }
    Ok(())
}

/// errno values the reply may carry for a non-OS io::ErrorKind
fn kind_errnos(idx: usize) -> Vec<i32> {
    use std::io::ErrorKind as K;
    let k = ERR_KINDS[idx];
    // documented mapping (lib.rs::encode_io_error_kind) or the inverse of std's decode_error_kind
    let mut v = match k {
        K::NotFound => vec![libc::ENOENT],
        K::PermissionDenied => vec![libc::EPERM, libc::EACCES],
        K::Interrupted => vec![libc::EINTR],
        K::AlreadyExists => vec![libc::EEXIST],
        K::WouldBlock => vec![libc::EWOULDBLOCK],
        K::ConnectionRefused => vec![libc::ECONNREFUSED, libc::EIO],
        K::ConnectionReset => vec![libc::ECONNRESET, libc::EIO],
        K::ConnectionAborted => vec![libc::ECONNABORTED, libc::EIO],
        K::NotConnected => vec![libc::ENOTCONN, libc::EIO],
        K::AddrInUse => vec![libc::EADDRINUSE, libc::EIO],
        K::AddrNotAvailable => vec![libc::EADDRNOTAVAIL, libc::EIO],
        K::BrokenPipe => vec![libc::EPIPE, libc::EIO],
        K::InvalidInput => vec![libc::EINVAL, libc::EIO],
        K::TimedOut => vec![libc::ETIMEDOUT, libc::EIO],
        K::OutOfMemory => vec![libc::ENOMEM, libc::EIO],
        K::Unsupported => vec![libc::ENOSYS, libc::EOPNOTSUPP, libc::EIO],
        _ => vec![libc::EIO],
    };
    v.dedup();
    v
}

pub fn dirent_size(namelen: usize, plus: bool) -> usize {
    let base = ksize("fuse_dirent");
    let d = (base + namelen + 7) & !7;
    if plus {
        d + ksize("fuse_entry_out")
    } else {
        d
    }
}

/// `room`: payload bytes the reply buffer can hold (may be less than the requested size).
fn check_dir(body: &[u8], entries: &[DirVals], plus: bool, req_size: u32, room: usize, op: &str) -> Result<(), Fail> {
    if body.len() > req_size as usize {
        return Err((format!("C03:{}:dir-exceeds-size", op), format!("directory payload {} bytes exceeds the requested size {}", body.len(), req_size)));
    }
    let mut pos = 0usize;
    let dbase = if plus { ksize("fuse_entry_out") } else { 0 };
    let hdr = ksize("fuse_dirent");
    let mut delivered = 0usize;
    for (i, d) in entries.iter().enumerate() {
        let want = dirent_size(d.name.len(), plus);
        match d.ret {
            Ok(0) => {
                // refused: must not have fitted in what remained of the requested size and of the buffer
                if (req_size as usize).min(room).saturating_sub(pos) >= want {
                    return Err((
                        format!("C03:{}:dir-refused-fitting-entry", op),
                        format!("entry {} of {} bytes refused although {} bytes of the requested {} (buffer room {}) remained", i, want, (req_size as usize).min(room) - pos, req_size, room),
                    ));
                }
                break;
            }
            Ok(n) => {
                if n != want {
                    return Err((format!("C03:{}:dir-add-entry-ret", op), format!("add_entry returned {} for an entry whose encoding is {} bytes", n, want)));
                }
                if body.len() < pos + want {
                    return Err((
                        format!("C03:{}:dir-truncated", op),
                        format!("entry {} accepted by add_entry ({} bytes at offset {}) is not completely in the payload of {} bytes", i, want, pos, body.len()),
                    ));
                }
                if plus {
                    check_entry(body, pos, "fuse_direntplus", "entry_out.", d.entry.as_ref().unwrap(), op)?;
                }
                let s = if plus { "fuse_direntplus" } else { "fuse_dirent" };
                let p = if plus { "dirent." } else { "" };
                fld(body, pos, s, &format!("{}ino", p), d.ino, "dirent.ino", op)?;
                fld(body, pos, s, &format!("{}off", p), d.offset, "dirent.off", op)?;
                fld(body, pos, s, &format!("{}namelen", p), d.name.len() as u64, "dirent.namelen", op)?;
                fld(body, pos, s, &format!("{}type", p), d.type_ as u64, "dirent.type", op)?;
                let ns = pos + dbase + hdr;
                if body[ns..ns + d.name.len()] != d.name[..] {
                    return Err((format!("C03:{}:dirent-name", op), format!("name bytes of entry {} differ", i)));
                }
                pos += want;
                delivered += 1;
            }
            Err(_) => break,
        }
    }
    if pos != body.len() {
        return Err((
            format!("C03:{}:dir-trailing", op),
            format!("payload has {} bytes but the {} delivered whole entries encode to {} bytes (partial or extra entry)", body.len(), delivered, pos),
        ));
    }
    Ok(())
}

/// Compare one reply with the result the filesystem returned. `minor` = negotiated minor version.
/// `cap`: reply-buffer capacity the transport offered (header included).
pub fn check_reply(g: &GenReq, call: Option<&Call>, out: &vkit::xport::Outcome, minor: u32, cap: usize) -> Result<(), Fail> {
    let op = g.opname;
    let call = match call {
        Some(c) => c,
        None => return Ok(()), // nothing returned by the filesystem; C01/C02 judge this
    };
    // replies expected?
    let expect_reply = match (call.method, &call.res) {
        ("forget", _) | ("batch_forget", _) => false,
        ("notify_reply", Res::Unit) => false,
        _ => true,
    };
    if !expect_reply {
        if !out.records.is_empty() {
            return Err((format!("C03:{}:unexpected-reply", op), "a reply was emitted for an operation that has none".into()));
        }
        return Ok(());
    }
    if out.records.len() != 1 {
        return Err((format!("C03:{}:reply-count", op), format!("{} replies emitted for one result", out.records.len())));
    }
    let rec = &out.records[0];
    let h = parse_out_header(rec).ok_or((format!("C03:{}:short-header", op), "reply shorter than fuse_out_header".to_string()))?;
    if h.len as usize != rec.len() {
        return Err((format!("C03:{}:len-field", op), format!("len field {} but {} bytes emitted", h.len, rec.len())));
    }
    if h.unique != g.unique {
        return Err((format!("C03:{}:unique", op), format!("unique {} in the reply, {} in the request", h.unique, g.unique)));
    }
    let body = &rec[OUT_HDR..];
    let err_only = |e: i32| -> Result<(), Fail> {
        if h.error != -e {
            return Err((format!("C03:{}:errno", op), format!("filesystem returned errno {}, reply carries error {}", e, h.error)));
        }
        want_len(body, 0, op)
    };
    match &call.res {
        Res::Err(ErrV::Raw(e)) => return err_only(*e),
        Res::Err(ErrV::Kind(name, idx)) => {
            let ok = kind_errnos(*idx as usize);
            if !ok.contains(&-h.error) {
                return Err((format!("C03:{}:errkind:{}", op, name), format!("error kind {} sent as {}, expected one of {:?} negated", name, h.error, ok)));
            }
            return want_len(body, 0, op);
        }
        _ => {}
    }
    // negative lookup entry before protocol 7.4
    if call.method == "lookup" && minor < 4 {
        if let Res::Entry(e) = &call.res {
            if e.inode == 0 {
                return err_only(libc::ENOENT);
            }
        }
    }
    if let Res::Dir { final_err: Some(_), .. } = &call.res {
        // add_entry itself failed (no room in the reply buffer) and the filesystem propagated that
        // error: the answer must be a clean error reply
        if h.error == 0 {
            return Err((format!("C03:{}:success-on-error", op), "the filesystem returned an error (that of add_entry, or its own after some entries), the reply reports success".to_string()));
        }
        if let Res::Dir { final_err: Some(ErrV::Raw(e)), .. } = &call.res {
            if *e > 0 {
                return err_only(*e);
            }
        }
        return want_len(body, 0, op);
    }
    if h.error != 0 {
        return Err((format!("C03:{}:error-on-success", op), format!("filesystem returned success, reply carries error {}", h.error)));
    }
    match &call.res {
        Res::Unit | Res::None => want_len(body, 0, op),
        Res::Entry(e) => {
            want_len(body, ksize("fuse_entry_out"), op)?;
            check_entry(body, 0, "fuse_entry_out", "", e, op)
        }
        Res::Attr(a, t) => {
            want_len(body, ksize("fuse_attr_out"), op)?;
            fld(body, 0, "fuse_attr_out", "attr_valid", t.0, "attr_valid", op)?;
            fld(body, 0, "fuse_attr_out", "attr_valid_nsec", t.1 as u64, "attr_valid_nsec", op)?;
            check_attr(body, 0, "fuse_attr_out", "attr.", a, 0, op)
        }
        Res::Open { fh, opts, passthrough } => {
            want_len(body, ksize("fuse_open_out"), op)?;
            fld(body, 0, "fuse_open_out", "fh", fh.unwrap_or(0), "open.fh", op)?;
            fld(body, 0, "fuse_open_out", "open_flags", *opts as u64, "open.open_flags", op)?;
            // third word: `padding` in 7.38, `backing_id` from 7.40 on
            fld(body, 0, "fuse_open_out", "padding", passthrough.unwrap_or(0) as u64, "open.backing_id", op)
        }
        Res::Create { entry, fh, opts, passthrough } => {
            let es = ksize("fuse_entry_out");
            want_len(body, es + ksize("fuse_open_out"), op)?;
            check_entry(body, 0, "fuse_entry_out", "", entry, op)?;
            fld(body, es, "fuse_open_out", "fh", fh.unwrap_or(0), "open.fh", op)?;
            fld(body, es, "fuse_open_out", "open_flags", *opts as u64, "open.open_flags", op)?;
            fld(body, es, "fuse_open_out", "padding", passthrough.unwrap_or(0) as u64, "open.backing_id", op)
        }
        Res::Bytes(b) => {
            if body != &b[..] {
                return Err((format!("C03:{}:bytes", op), format!("payload differs from the {} bytes the filesystem returned (got {} bytes)", b.len(), body.len())));
            }
            Ok(())
        }
        Res::Count(c) => {
            want_len(body, ksize("fuse_getxattr_out"), op)?;
            fld(body, 0, "fuse_getxattr_out", "size", *c as u64, "xattr.size", op)
        }
        Res::Read { data, count, .. } => {
            if body.len() != *count {
                return Err((format!("C03:{}:read-len", op), format!("reply carries {} payload bytes, filesystem produced {}", body.len(), count)));
            }
            if body != &data[..] {
                let first = body.iter().zip(data.iter()).position(|(a, b)| a != b);
                return Err((format!("C03:{}:read-data", op), format!("read payload differs from the produced bytes (first difference at {:?})", first)));
            }
            Ok(())
        }
        Res::Written(n) => {
            want_len(body, ksize("fuse_write_out"), op)?;
            fld(body, 0, "fuse_write_out", "size", *n as u32 as u64, "write.size", op)
        }
        Res::Statfs { blocks, bfree, bavail, files, ffree, bsize, namemax, frsize } => {
            want_len(body, ksize("fuse_statfs_out"), op)?;
            fld(body, 0, "fuse_statfs_out", "st.blocks", *blocks, "statfs.blocks", op)?;
            fld(body, 0, "fuse_statfs_out", "st.bfree", *bfree, "statfs.bfree", op)?;
            fld(body, 0, "fuse_statfs_out", "st.bavail", *bavail, "statfs.bavail", op)?;
            fld(body, 0, "fuse_statfs_out", "st.files", *files, "statfs.files", op)?;
            fld(body, 0, "fuse_statfs_out", "st.ffree", *ffree, "statfs.ffree", op)?;
            fld(body, 0, "fuse_statfs_out", "st.bsize", *bsize as u32 as u64, "statfs.bsize", op)?;
            fld(body, 0, "fuse_statfs_out", "st.namelen", *namemax as u32 as u64, "statfs.namelen", op)?;
            fld(body, 0, "fuse_statfs_out", "st.frsize", *frsize as u32 as u64, "statfs.frsize", op)
        }
        Res::Lock { start, end, typ, pid } => {
            want_len(body, ksize("fuse_lk_out"), op)?;
            fld(body, 0, "fuse_lk_out", "lk.start", *start, "lk.start", op)?;
            fld(body, 0, "fuse_lk_out", "lk.end", *end, "lk.end", op)?;
            fld(body, 0, "fuse_lk_out", "lk.type", *typ as u64, "lk.type", op)?;
            fld(body, 0, "fuse_lk_out", "lk.pid", *pid as u64, "lk.pid", op)
        }
        Res::U64(v) => {
            if call.method == "bmap" {
                want_len(body, ksize("fuse_bmap_out"), op)?;
                fld(body, 0, "fuse_bmap_out", "block", *v, "bmap.block", op)
            } else {
                want_len(body, ksize("fuse_lseek_out"), op)?;
                fld(body, 0, "fuse_lseek_out", "offset", *v, "lseek.offset", op)
            }
        }
        Res::U32(v) => {
            want_len(body, ksize("fuse_poll_out"), op)?;
            fld(body, 0, "fuse_poll_out", "revents", *v as u64, "poll.revents", op)
        }
        Res::Ioctl { result, data } => {
            let n = ksize("fuse_ioctl_out");
            let d = data.clone().unwrap_or_default();
            want_len(body, n + d.len(), op)?;
            fld(body, 0, "fuse_ioctl_out", "result", *result as u32 as u64, "ioctl.result", op)?;
            fld(body, 0, "fuse_ioctl_out", "flags", 0, "ioctl.flags", op)?;
            fld(body, 0, "fuse_ioctl_out", "in_iovs", 0, "ioctl.in_iovs", op)?;
            fld(body, 0, "fuse_ioctl_out", "out_iovs", 0, "ioctl.out_iovs", op)?;
            if body[n..] != d[..] {
                return Err((format!("C03:{}:ioctl-data", op), "ioctl output data differs".into()));
            }
            Ok(())
        }
        Res::Dir { entries, final_err } => {
            let _ = final_err;
            check_dir(body, entries, call.method == "readdirplus", g.req_size.unwrap_or(0), cap.saturating_sub(OUT_HDR), op)
        }
        Res::Init(_) => Ok(()), // C12
        Res::Err(_) => unreachable!(),
    }
}

fn init_request(r: &mut Rng, minor: u32) -> Vec<u8> {
    let mut b = Body::new();
    let s = b.st("fuse_init_in");
    b.set(s, "fuse_init_in", "major", 7);
    b.set(s, "fuse_init_in", "minor", minor as u64);
    b.set(s, "fuse_init_in", "max_readahead", 65536);
    b.set(s, "fuse_init_in", "flags", 0);
    header(kconst("FUSE_INIT") as u32, r.next() | 1, 0, 0, 0, 0, &b.b)
}

pub fn run(args: &Args, rep: &mut Report) {
    let env = Env::new();
    let minors = [3u32, 4, 22, 23, 38];
    for idx in args.indices() {
        if rep.too_many() {
            break;
        }
        let mut r = Rng::derive(args.seed, "C03", idx, 0);
        let opname = OPS[(idx % OPS.len() as u64) as usize];
        rep.begin(idx, opname);
        let big = idx % 89 == 0;
        let mut opts = gen_opts(big);
        opts.long_names = false;
        let g = gen_request(&mut r, opname, &opts);
        // sweep errno 1..133 deterministically on a slice of the cases, kinds on another
        let mode = (idx / OPS.len() as u64) % 8;
        let script = Script {
            err_permille: match mode {
                0 => 1000,
                1 => 1000,
                _ => 60,
            },
            kind_permille: if mode == 1 { 1000 } else { 0 },
            ioctl_out: if r.chance(1, 2) { let n = r.below(300) as usize; Some(r.bytes(n)) } else { None },
            max_dir_entries: if cfg!(miri) { 4 } else { 40 },
            ..Default::default()
        };
        let (fs, srv): (Arc<ScriptFs>, Server<Arc<ScriptFs>>) = new_server(r.next(), script);
        let mut minor = 33;
        if opname == "FUSE_LOOKUP" || r.chance(1, 10) {
            minor = *r.pick(&minors);
            let init = init_request(&mut r, minor);
            let tx = if cfg!(miri) { pick_tx(&mut r, init.len(), 4096) } else { Tx::Fd { aliased: false } };
            let _ = env.exec(&srv, &tx, &init, 4096, false);
            fs.take_log();
        }
        let cap = ample_capacity(&g);
        let tx = pick_tx(&mut r, g.bytes.len(), cap);
        let out = env.exec(&srv, &tx, &g.bytes, cap, g.needs_vu);
        rep.eval();
        let log = fs.take_log();
        let call = log.first();
        let cls = call.map(|c| c.res.class()).unwrap_or("nocall");
        rep.count(&format!("op:{}", g.opname), 1);
        rep.count(&format!("result:{}", cls), 1);
        rep.count(&format!("transport:{}", out.transport), 1);
        let detail = match call.map(|c| &c.res) {
            Some(Res::Err(ErrV::Raw(e))) => format!("errno{}", e),
            Some(Res::Err(ErrV::Kind(k, _))) => k.clone(),
            Some(Res::Dir { entries, .. }) => format!("dir{}", entries.iter().filter(|e| matches!(e.ret, Ok(n) if n>0)).count().min(5)),
            Some(Res::Read { data, via_file, .. }) => format!("read{}{}", data.len().min(3), via_file),
            _ => String::new(),
        };
        rep.key(&format!("{}|{}|{}|{}|minor{}", g.opname, cls, detail, out.transport, minor));
        if out.panic.is_some() {
            rep.inconclusive("panic", J::obj(vec![("request", req_json(&g)), ("outcome", outcome_json(&out))]));
            continue;
        }
        if call.is_none() {
            rep.trivial += 1;
        }
        if let Err((sig, why)) = check_reply(&g, call, &out, minor, cap) {
            rep.violation(
                &sig,
                idx,
                J::obj(vec![
                    ("why", J::s(why)),
                    ("request", req_json(&g)),
                    ("minor", J::U(minor as u64)),
                    ("transport", tx.j()),
                    ("fs_log", J::A(log.iter().map(|c| c.j()).collect())),
                    ("outcome", outcome_json(&out)),
                ]),
            );
        } else if rep.want_sample() && call.is_some() {
            rep.sample(J::obj(vec![("request", req_json(&g)), ("fs_result", call.unwrap().res.j()), ("reply", outcome_json(&out))]));
        }
    }
    // directory-reply sweep: names of every length 1..255 x requested sizes, and notifications
    dir_sweep(args, rep, &env);
    #[cfg(not(miri))]
    notify_checks(args, rep, &env);
}

/// READDIR / READDIRPLUS with name lengths of every residue and requested sizes around entry
/// boundaries; capacity always >= size + header.
fn dir_sweep(args: &Args, rep: &mut Report, env: &Env) {
    let n = if args.only.is_some() { 0 } else { args.cases / 40 };
    let n = if cfg!(miri) { n.min(2) } else { n };
    for k in 0..n {
        if k % args.nshards != args.shard {
            continue;
        }
        let idx = 1_000_000_000 + k;
        let mut r = Rng::derive(args.seed, "C03dir", k, 0);
        rep.begin(idx, "dir-sweep");
        let plus = r.chance(1, 2);
        let opname = if plus { "FUSE_READDIRPLUS" } else { "FUSE_READDIR" };
        let mut g = gen_request(&mut r, opname, &GenOpts::default());
        // requested size: around multiples of typical entry sizes
        let size = match r.below(5) {
            _ if cfg!(miri) => r.range(0, 300),
            0 => r.range(0, 200),
            1 => dirent_size(r.range(1, 255) as usize, plus) as u64 * r.range(1, 3) + r.range(0, 2) - 1,
            2 => 65536,
            _ => r.range(16, 4096),
        } as u32;
        vkit::klayout::put(&mut g.bytes, 40, "fuse_read_in", "size", size as u64);
        g.req_size = Some(size);
        // a filesystem may treat an error of the add_entry callback as "buffer full" and return Ok
        let swallow = r.chance(1, 2);
        let script = Script { err_permille: 0, max_dir_entries: if cfg!(miri) { 6 } else { 300 }, swallow_dir_error: swallow, ..Default::default() };
        let (fs, srv) = new_server(r.next(), script);
        let cap = match r.below(4) {
            0 => OUT_HDR + size as usize,
            1 => OUT_HDR + size as usize + 16,
            2 => OUT_HDR + size as usize + 4096,
            // a client that supplies the requested size but not the room for the header on top of it
            _ => size as usize + r.below(16) as usize,
        };
        let tx = pick_tx(&mut r, g.bytes.len(), cap);
        let out = env.exec(&srv, &tx, &g.bytes, cap, false);
        rep.eval();
        let log = fs.take_log();
        let call = log.first();
        let delivered = match call.map(|c| &c.res) {
            Some(Res::Dir { entries, .. }) => entries.iter().filter(|e| matches!(e.ret, Ok(n) if n > 0)).count(),
            _ => 0,
        };
        rep.count("dir_sweep_cases", 1);
        rep.count("dir_sweep_entries_delivered", delivered as u64);
        rep.key(&format!("dirsweep|{}|size{}|delivered{}|{}", opname, size / 64, delivered.min(8), out.transport));
        if out.panic.is_some() {
            rep.inconclusive("panic", outcome_json(&out));
            continue;
        }
        if let Err((sig, why)) = check_reply(&g, call, &out, 33, cap) {
            rep.violation(
                &sig,
                idx,
                J::obj(vec![
                    ("why", J::s(why)),
                    ("request", req_json(&g)),
                    ("requested_size", J::U(size as u64)),
                    ("capacity", J::U(cap as u64)),
                    ("filesystem_returns_ok_after_add_entry_error", J::Bool(swallow)),
                    ("transport", tx.j()),
                    ("fs_log", J::A(log.iter().map(|c| c.j()).collect())),
                    ("outcome", outcome_json(&out)),
                ]),
            );
        }
    }
}

#[cfg(not(miri))]
fn notify_checks(args: &Args, rep: &mut Report, env: &Env) {
    use fuse_backend_rs::transport::FuseDevWriter;
    let n = if args.only.is_some() { 0 } else { (args.cases / 200).max(16) };
    for k in 0..n {
        if k % args.nshards != args.shard {
            continue;
        }
        let idx = 2_000_000_000 + k;
        let mut r = Rng::derive(args.seed, "C03notify", k, 0);
        rep.begin(idx, "notify");
        let (_fs, srv) = new_server(1, Script::default());
        let mut buf = vec![0u8; 8192];
        let which = k % 3;
        let w = FuseDevWriter::<()>::new(env.sock.wr, &mut buf).unwrap();
        let (code, expect_body): (u64, Vec<u8>);
        let res: Result<(), String>;
        match which {
            0 => {
                let parent = r.edge(64);
                let name = r.name(255);
                let mut cs = name.clone();
                cs.push(0);
                let c = std::ffi::CStr::from_bytes_with_nul(&cs).unwrap();
                res = vkit::xport::guarded(|| srv.notify_inval_entry(w, parent, c).map(|_| ()).map_err(|e| format!("{:?}", e))).and_then(|x| x);
                code = kconst("FUSE_NOTIFY_INVAL_ENTRY");
                let mut b = vec![0u8; ksize("fuse_notify_inval_entry_out")];
                vkit::klayout::put(&mut b, 0, "fuse_notify_inval_entry_out", "parent", parent);
                vkit::klayout::put(&mut b, 0, "fuse_notify_inval_entry_out", "namelen", name.len() as u64);
                b.extend_from_slice(&cs);
                expect_body = b;
            }
            1 => {
                let (ino, off, len) = (r.edge(64), r.edge(64), r.edge(64));
                res = vkit::xport::guarded(|| srv.notify_inval_inode(w, ino, off, len).map(|_| ()).map_err(|e| format!("{:?}", e))).and_then(|x| x);
                code = kconst("FUSE_NOTIFY_INVAL_INODE");
                let mut b = vec![0u8; ksize("fuse_notify_inval_inode_out")];
                vkit::klayout::put(&mut b, 0, "fuse_notify_inval_inode_out", "ino", ino);
                vkit::klayout::put(&mut b, 0, "fuse_notify_inval_inode_out", "off", off);
                vkit::klayout::put(&mut b, 0, "fuse_notify_inval_inode_out", "len", len);
                expect_body = b;
            }
            _ => {
                res = vkit::xport::guarded(|| srv.notify_resend(w).map_err(|e| format!("{:?}", e))).and_then(|x| x);
                // FUSE_NOTIFY_RESEND = 7 (uapi 7.40; newer than the installed header)
                code = vkit::klayout::kconst_opt("FUSE_NOTIFY_RESEND").unwrap_or(7);
                expect_body = vec![];
            }
        }
        rep.eval();
        rep.count("notifications", 1);
        rep.key(&format!("notify|{}|{}", which, expect_body.len() / 32));
        let recs = env.sock.drain();
        let mut fail = None;
        if let Err(e) = &res {
            fail = Some(("call-failed", format!("notification call failed: {}", e)));
        } else if recs.len() != 1 {
            fail = Some(("record-count", format!("{} write calls for one notification", recs.len())));
        } else {
            let rec = &recs[0];
            match parse_out_header(rec) {
                None => fail = Some(("short", "shorter than a header".into())),
                Some(h) => {
                    if h.unique != 0 {
                        fail = Some(("unique", format!("unique = {}", h.unique)));
                    } else if h.error as i64 != code as i64 {
                        fail = Some(("code", format!("notification code {} on the wire, expected {}", h.error, code)));
                    } else if h.len as usize != rec.len() {
                        fail = Some(("len", format!("len field {} but {} bytes emitted", h.len, rec.len())));
                    } else if rec[OUT_HDR..] != expect_body[..] {
                        fail = Some(("body", "notification body differs from the arguments".into()));
                    }
                }
            }
        }
        if let Some((s, why)) = fail {
            rep.violation(&format!("C03:notify{}:{}", which, s), idx, J::obj(vec![("why", J::s(why)), ("records", J::A(recs.iter().map(|r| J::bytes(r)).collect()))]));
        }
    }
}

//! C01 — untrusted request bytes never crash the server nor corrupt the reply stream.
use vkit::gen::{gen_request, GenReq, IN_HDR, OPS, OUT_HDR};
use vkit::json::J;
use vkit::klayout::{get, kconst, put};
use vkit::prng::Rng;
use vkit::run::{Args, Report};
use vkit::scriptfs::Script;
use vkit::xport::{Outcome, VShape};

use crate::common::*;

const MAX_REQ: u64 = (1 << 20) + 4096; // MAX_BUFFER_SIZE + BUFFER_HEADER_SIZE (server limits)

/// Structured mutation of a well-formed request. Returns (bytes, class).
pub fn mutate(r: &mut Rng, g: &GenReq) -> (Vec<u8>, String) {
    let mut b = g.bytes.clone();
    let len = b.len();
    let small = cfg!(miri);
    match r.below(12) {
        0 => {
            let k = r.below(len as u64 + 1) as usize;
            b.truncate(k);
            (b, format!("truncate:{}", if k < 16 { "lt16" } else if k < IN_HDR { "lt40" } else { "body" }))
        }
        1 => {
            let k = r.below(len as u64 + 1) as usize;
            b.truncate(k);
            // truncated but the len field now tells the truth
            if b.len() >= 4 {
                let n = b.len() as u64;
                put(&mut b, 0, "fuse_in_header", "len", n);
            }
            (b, "truncate-consistent".into())
        }
        2 => {
            let n = if small { r.below(64) } else { r.below(4096) } as usize;
            let extra = r.bytes(n);
            b.extend_from_slice(&extra);
            if r.chance(1, 2) {
                let n = b.len() as u64;
                put(&mut b, 0, "fuse_in_header", "len", n);
                (b, "junk-extension-consistent".into())
            } else {
                (b, "junk-extension".into())
            }
        }
        3 => {
            let lies = [0u64, 1, 15, 16, 39, 40, 41, len as u64 - 1, len as u64 + 1, len as u64 + 8, MAX_REQ - 1, MAX_REQ, MAX_REQ + 1, 0x7fff_ffff, 0x8000_0000, 0xffff_ffff];
            let v = *r.pick(&lies);
            put(&mut b, 0, "fuse_in_header", "len", v);
            (b, format!("len-lie:{}", if v < 40 { "lt40".to_string() } else if v > MAX_REQ { "gtmax".into() } else if v as usize > len { "longer".into() } else { "shorter".into() }))
        }
        4 => {
            let holes = [0u64, 7, 19, 47, 50, 51, 52, 53, 4096, 1_048_576, 436_207_616, 0xffff_ffff];
            let v = if r.chance(1, 4) { r.next() & 0xffff_ffff } else { *r.pick(&holes) };
            put(&mut b, 0, "fuse_in_header", "opcode", v);
            (b, "opcode-hole".into())
        }
        5 => {
            // re-label with another valid opcode: body of one op parsed as another
            let other = OPS[r.below(OPS.len() as u64) as usize];
            put(&mut b, 0, "fuse_in_header", "opcode", kconst(other));
            (b, format!("opcode-swap:{}", other))
        }
        6 => {
            // a 32-bit word of the body at an extreme (count / size / in_size / flags fields live here)
            if len >= IN_HDR + 4 {
                let words = ((len - IN_HDR) / 4).min(16);
                let w = r.below(words as u64) as usize;
                let ext = [0u32, 1, 0x7fff_ffff, 0x8000_0000, 0xffff_ffff, 0xffff_fff0, 65536, 65537, 0x0010_0000, 0x0010_0001, (len - IN_HDR) as u32, (len - IN_HDR) as u32 + 1];
                let v = *r.pick(&ext);
                b[IN_HDR + 4 * w..IN_HDR + 4 * w + 4].copy_from_slice(&v.to_le_bytes());
                (b, format!("word-extreme:w{}", w))
            } else {
                (b, "word-extreme:none".into())
            }
        }
        7 => {
            // strip every NUL from the tail (missing terminator)
            if len > IN_HDR {
                let start = IN_HDR + r.below((len - IN_HDR) as u64) as usize;
                for x in b[start..].iter_mut() {
                    if *x == 0 {
                        *x = b'Z';
                    }
                }
            }
            (b, "nul-missing".into())
        }
        8 => {
            if len > IN_HDR {
                for _ in 0..r.range(1, 3) {
                    let k = IN_HDR + r.below((len - IN_HDR) as u64) as usize;
                    b[k] = 0;
                }
            }
            (b, "nul-embedded".into())
        }
        9 => {
            for _ in 0..r.range(1, 8) {
                let k = r.below(len as u64) as usize;
                b[k] ^= 1 << r.below(8);
            }
            (b, "bitflip".into())
        }
        10 => {
            // header only
            b.truncate(IN_HDR);
            (b, "header-only".into())
        }
        _ => {
            // body replaced with random bytes of the same length
            let body = r.bytes(len - IN_HDR);
            b[IN_HDR..].copy_from_slice(&body);
            (b, "random-body".into())
        }
    }
}

#[derive(Debug)]
pub struct Verdict {
    pub sig: String,
    pub why: String,
}

fn opcode_of(req: &[u8]) -> Option<u32> {
    get(req, 0, "fuse_in_header", "opcode").map(|v| v as u32)
}
fn unique_of(req: &[u8]) -> Option<u64> {
    get(req, 0, "fuse_in_header", "unique")
}

/// Checks that hold for ANY request bytes.
pub fn check_any(req: &[u8], out: &Outcome, label: &str) -> Result<(), Verdict> {
    if let Some(p) = &out.panic {
        let site = p.rsplit(" @ ").next().unwrap_or("?");
        return Err(Verdict { sig: format!("C01:panic:{}", site.replace("/repo/", "")), why: format!("handle_message panicked: {}", p) });
    }
    if let Some(s) = &out.stray {
        return Err(Verdict { sig: format!("C01:stray:{}:{}", out.transport, label), why: s.clone() });
    }
    if out.records.len() > 1 {
        let lens: Vec<usize> = out.records.iter().map(|r| r.len()).collect();
        return Err(Verdict {
            sig: format!("C01:multi-write:{}:{}", out.transport, label),
            why: format!("{} write calls / replies for one request (sizes {:?})", out.records.len(), lens),
        });
    }
    let op = opcode_of(req);
    let is_forget = op == Some(kconst("FUSE_FORGET") as u32) || op == Some(kconst("FUSE_BATCH_FORGET") as u32);
    if is_forget && (!out.records.is_empty() || out.modified_prefix > 0) {
        return Err(Verdict { sig: format!("C01:forget-replied:{}", label), why: "a FORGET/BATCH_FORGET request produced reply bytes".into() });
    }
    if let Some(rec) = out.records.first() {
        if req.len() < IN_HDR {
            return Err(Verdict { sig: format!("C01:reply-to-short-request:{}", label), why: format!("a {}-byte request (shorter than a header) got a reply", req.len()) });
        }
        let h = match parse_out_header(rec) {
            Some(h) => h,
            None => return Err(Verdict { sig: format!("C01:short-reply:{}", label), why: format!("emitted {} bytes, less than a reply header", rec.len()) }),
        };
        if h.len as usize != rec.len() {
            return Err(Verdict {
                sig: format!("C01:len-mismatch:{}:{}", out.transport, label),
                why: format!("reply len field {} but {} bytes emitted", h.len, rec.len()),
            });
        }
        if Some(h.unique) != unique_of(req) {
            return Err(Verdict { sig: format!("C01:unique:{}", label), why: format!("reply unique {} != request unique {:?}", h.unique, unique_of(req)) });
        }
        if !(h.error == 0 || (-4095..=-1).contains(&h.error)) {
            return Err(Verdict { sig: format!("C01:error-range:{}", label), why: format!("reply error field {} is neither 0 nor a negated errno", h.error) });
        }
        if let Ok(n) = &out.ret {
            if *n != 0 && *n != rec.len() {
                return Err(Verdict {
                    sig: format!("C01:ret-len:{}:{}", out.transport, label),
                    why: format!("handle_message returned {} (used length reported to the client) but the reply is {} bytes", n, rec.len()),
                });
            }
        }
    }
    Ok(())
}

fn cap_class(cap: usize, need: usize) -> &'static str {
    if cap == 0 {
        "0"
    } else if cap < 16 {
        "lt16"
    } else if cap == 16 {
        "16"
    } else if cap + 1 == need {
        "need-1"
    } else if cap == need {
        "need"
    } else if cap == need + 1 {
        "need+1"
    } else if cap < need {
        "lt-need"
    } else {
        "ample"
    }
}

fn tx_for(r: &mut Rng, rlen: usize, cap: usize) -> Tx {
    let mut tx = pick_tx(r, rlen, cap);
    if let Tx::Virtio { shape } = &mut tx {
        if cap == 0 && r.chance(1, 2) {
            // chain without any writable descriptor
            shape.segs.retain(|s| !s.writable);
        }
    }
    tx
}

fn report(rep: &mut Report, idx: u64, v: Verdict, g: Option<&GenReq>, req: &[u8], class: &str, tx: &Tx, cap: usize, out: &Outcome, fs_seed: u64) {
    rep.violation(
        &v.sig,
        idx,
        J::obj(vec![
            ("why", J::s(v.why)),
            ("class", J::s(class)),
            ("base_request", g.map(req_json).unwrap_or(J::Null)),
            ("request_len", J::U(req.len() as u64)),
            ("request_bytes", if req.len() <= 512 { J::hex_full(req) } else { J::bytes(req) }),
            ("capacity", J::U(cap as u64)),
            ("transport", tx.j()),
            ("scriptfs_seed", J::U(fs_seed)),
            ("outcome", outcome_json(out)),
        ]),
    );
}

pub fn run(args: &Args, rep: &mut Report) {
    let env = Env::new();
    for idx in args.indices() {
        if rep.too_many() {
            break;
        }
        let mut r = Rng::derive(args.seed, "C01", idx, 0);
        let opname = OPS[(idx % OPS.len() as u64) as usize];
        let kind = (idx / OPS.len() as u64) % 10; // 0..3 well-formed, 4..8 mutated, 9 random bytes
        rep.begin(idx, opname);
        let g = gen_request(&mut r, opname, &gen_opts(idx % 401 == 0));
        let fs_seed = r.next();
        let script = Script { err_permille: 200, ioctl_out: if r.chance(1, 2) { Some(r.bytes(64)) } else { None }, ..Default::default() };
        let with_vu = g.needs_vu && r.chance(3, 4);
        if kind <= 3 {
            // (a) well-formed: learn the reply length with ample capacity, then probe capacities
            let (_fs, srv) = new_server(fs_seed, script.clone());
            let ample = ample_capacity(&g);
            let tx0 = tx_for(&mut r, g.bytes.len(), ample);
            let out0 = env.exec(&srv, &tx0, &g.bytes, ample, with_vu);
            rep.eval();
            rep.count(&format!("op:{}", g.opname), 1);
            let cls0 = format!("wf|{}|{}|{}|replies{}", g.opname, tx0.class(), "ample", out0.records.len());
            rep.key(&cls0);
            if let Err(v) = check_any(&g.bytes, &out0, "well-formed") {
                report(rep, idx, v, Some(&g), &g.bytes, "well-formed", &tx0, ample, &out0, fs_seed);
                continue;
            }
            if g.needs_reply && out0.records.len() != 1 {
                let v = Verdict {
                    sig: format!("C01:no-reply:{}:{}", g.opname, out0.transport),
                    why: format!("well-formed {} with ample reply capacity {} produced {} replies (ret {:?})", g.opname, ample, out0.records.len(), out0.ret),
                };
                report(rep, idx, v, Some(&g), &g.bytes, "well-formed", &tx0, ample, &out0, fs_seed);
                continue;
            }
            if !g.needs_reply && g.opname != "FUSE_NOTIFY_REPLY" && !out0.records.is_empty() {
                let v = Verdict { sig: format!("C01:reply-to-noreply:{}", g.opname), why: "a request that takes no answer got one".into() };
                report(rep, idx, v, Some(&g), &g.bytes, "well-formed", &tx0, ample, &out0, fs_seed);
                continue;
            }
            if rep.want_sample() {
                rep.sample(J::obj(vec![("class", J::s("well-formed")), ("request", req_json(&g)), ("transport", tx0.j()), ("outcome", outcome_json(&out0))]));
            }
            let need = match (g.opname, out0.records.first()) {
                ("FUSE_READ", _) => OUT_HDR + g.req_size.unwrap_or(0) as usize,
                (_, Some(rec)) => rec.len(),
                (_, None) => 0,
            };
            let caps = [0usize, 1, 15, 16, 17, need.saturating_sub(1), need, need + 1, r.below(need as u64 + 32) as usize, if cfg!(miri) { need + 8 } else { (1 << 20) + 4096 }];
            let ncap = if cfg!(miri) { 1 } else { 3 };
            for _ in 0..ncap {
                let cap = *r.pick(&caps);
                if cap > (1 << 16) && idx % 64 != 0 {
                    continue;
                }
                let (_fs, srv) = new_server(fs_seed, script.clone());
                let tx = tx_for(&mut r, g.bytes.len(), cap);
                let out = env.exec(&srv, &tx, &g.bytes, cap, with_vu);
                rep.eval();
                rep.key(&format!("wf|{}|{}|{}|replies{}", g.opname, tx.class(), cap_class(cap, need), out.records.len()));
                rep.count(&format!("capacity:{}", cap_class(cap, need)), 1);
                if let Err(v) = check_any(&g.bytes, &out, "well-formed") {
                    report(rep, idx, v, Some(&g), &g.bytes, "well-formed", &tx, cap, &out, fs_seed);
                    break;
                }
                // READDIR needs available >= size for the filesystem to be consulted at all; with less
                // it still owes exactly one (error) reply as soon as a header fits.
                let sufficient = cap >= need && need > 0 && (!g.opname.starts_with("FUSE_READDIR") || cap >= OUT_HDR + g.req_size.unwrap_or(0) as usize);
                if g.needs_reply && sufficient && out.records.len() != 1 {
                    let v = Verdict {
                        sig: format!("C01:no-reply:{}:{}:cap-{}", g.opname, out.transport, cap_class(cap, need)),
                        why: format!("well-formed {}: reply of {} bytes fits capacity {} but {} replies were produced (ret {:?})", g.opname, need, cap, out.records.len(), out.ret),
                    };
                    report(rep, idx, v, Some(&g), &g.bytes, "well-formed", &tx, cap, &out, fs_seed);
                    break;
                }
            }
            // exhaustive single-cut sweep over the readable side for small requests (virtio)
            if g.bytes.len() <= 128 && idx % (if cfg!(miri) { 97 } else { 23 }) == 0 {
                for cut in 0..=g.bytes.len() {
                    let shape = VShape::layout(g.bytes.len(), &[cut], ample, &[16.min(ample)], 1, &[0, 3], 5);
                    let (_fs, srv) = new_server(fs_seed, script.clone());
                    let tx = Tx::Virtio { shape };
                    let out = env.exec(&srv, &tx, &g.bytes, ample, with_vu);
                    rep.eval();
                    rep.count("single-cut-sweep-executions", 1);
                    rep.key(&format!("cut|{}|{}", g.opname, cut));
                    let res = check_any(&g.bytes, &out, "well-formed-cut").and_then(|_| {
                        if g.needs_reply && out.records.len() != 1 {
                            Err(Verdict { sig: format!("C01:no-reply:{}:virtio-cut", g.opname), why: format!("cut at {}: {} replies", cut, out.records.len()) })
                        } else {
                            Ok(())
                        }
                    });
                    if let Err(v) = res {
                        report(rep, idx, v, Some(&g), &g.bytes, "well-formed-cut", &tx, ample, &out, fs_seed);
                        break;
                    }
                }
            }
        } else {
            // (b) mutated / (c) random
            let (req, class) = if kind <= 8 {
                mutate(&mut r, &g)
            } else {
                let n = match r.below(20) {
                    0 if !cfg!(miri) => (MAX_REQ as usize) + r.below(3) as usize - 1,
                    1 => r.below(48) as usize,
                    _ => r.below(if cfg!(miri) { 256 } else { 8192 }) as usize,
                };
                let mut b = r.bytes(n);
                if r.chance(1, 2) && b.len() >= 8 {
                    // plausible opcode so that the body is actually parsed
                    let op = kconst(OPS[r.below(OPS.len() as u64) as usize]);
                    put(&mut b, 0, "fuse_in_header", "opcode", op);
                    if r.chance(1, 2) {
                        let l = b.len() as u64;
                        put(&mut b, 0, "fuse_in_header", "len", l);
                    }
                }
                (b, "random-bytes".to_string())
            };
            let ample = ample_capacity(&g);
            let caps = [0usize, 1, 15, 16, 17, 24, 80, 144, ample, 4096];
            let cap = if r.chance(1, 2) { ample } else { *r.pick(&caps) };
            let (_fs, srv) = new_server(fs_seed, script);
            let tx = tx_for(&mut r, req.len(), cap);
            let out = env.exec(&srv, &tx, &req, cap, with_vu);
            rep.eval();
            let mclass = class.split(':').next().unwrap_or("").to_string();
            rep.count(&format!("mutation:{}", mclass), 1);
            let oc = match (&out.ret, out.records.len()) {
                (Ok(_), 0) => "ok-noreply",
                (Ok(_), _) => "ok-reply",
                (Err(_), 0) => "err-noreply",
                (Err(_), _) => "err-reply",
            };
            rep.key(&format!("mut|{}|{}|{}|{}|{}", g.opname, class, tx.class(), cap_class(cap, ample), oc));
            if let Err(v) = check_any(&req, &out, &mclass) {
                report(rep, idx, v, Some(&g), &req, &class, &tx, cap, &out, fs_seed);
            } else if rep.want_sample() && idx % 7 == 0 {
                rep.sample(J::obj(vec![("class", J::s(&class)), ("request_bytes", J::bytes(&req)), ("transport", tx.j()), ("outcome", outcome_json(&out))]));
            }
        }
    }
}

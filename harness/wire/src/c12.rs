//! C12 (part 1) — INIT negotiation against the protocol, with a scripted filesystem `want` set.
//! (Part 2, the behavioural toggles of VFS / passthrough / overlay, lives in the ptfs harness.)
use vkit::gen::{header, Body, OUT_HDR};
use vkit::json::J;
use vkit::klayout::{get, kconst, ksize};
use vkit::prng::Rng;
use vkit::run::{Args, Report};
use vkit::scriptfs::{Res, Script};

use crate::common::*;

/// INIT flag bits of the protocol (uapi); names from the kernel header where it has them.
fn known_bits() -> Vec<(String, u64)> {
    let names = [
        "FUSE_ASYNC_READ", "FUSE_POSIX_LOCKS", "FUSE_FILE_OPS", "FUSE_ATOMIC_O_TRUNC", "FUSE_EXPORT_SUPPORT", "FUSE_BIG_WRITES", "FUSE_DONT_MASK",
        "FUSE_SPLICE_WRITE", "FUSE_SPLICE_MOVE", "FUSE_SPLICE_READ", "FUSE_FLOCK_LOCKS", "FUSE_HAS_IOCTL_DIR", "FUSE_AUTO_INVAL_DATA",
        "FUSE_DO_READDIRPLUS", "FUSE_READDIRPLUS_AUTO", "FUSE_ASYNC_DIO", "FUSE_WRITEBACK_CACHE", "FUSE_NO_OPEN_SUPPORT", "FUSE_PARALLEL_DIROPS",
        "FUSE_HANDLE_KILLPRIV", "FUSE_POSIX_ACL", "FUSE_ABORT_ERROR", "FUSE_MAX_PAGES", "FUSE_CACHE_SYMLINKS", "FUSE_NO_OPENDIR_SUPPORT",
        "FUSE_EXPLICIT_INVAL_DATA", "FUSE_MAP_ALIGNMENT", "FUSE_SUBMOUNTS", "FUSE_HANDLE_KILLPRIV_V2", "FUSE_INIT_EXT", "FUSE_HAS_INODE_DAX",
    ];
    let mut v: Vec<(String, u64)> = names.iter().map(|n| (n.to_string(), kconst(n))).collect();
    v.push(("FUSE_HAS_RESEND".into(), 1u64 << 39)); // uapi 7.40
    v
}

pub fn run(args: &Args, rep: &mut Report) {
    let env = Env::new();
    let bits = known_bits();
    let init_ext = kconst("FUSE_INIT_EXT");
    let all_known: u64 = bits.iter().fold(0, |a, (_, b)| a | b);
    let full = ksize("fuse_init_in"); // 64
    for idx in args.indices() {
        if rep.too_many() {
            break;
        }
        let mut r = Rng::derive(args.seed, "C12", idx, 0);
        rep.begin(idx, "init");
        let major = match r.below(12) {
            0 => 6,
            1 => 8,
            2 => r.edge(32),
            _ => 7,
        };
        let minor = match r.below(8) {
            0 => 1000,
            1 => r.edge(32),
            _ => *r.pick(&[0u64, 3, 4, 5, 12, 22, 23, 26, 31, 33, 35, 36, 38, 40]),
        };
        let mut flags = r.next() & 0xffff_ffff;
        let mut flags2 = r.next() & 0xffff_ffff;
        match r.below(5) {
            0 => {
                flags = 0xffff_ffff;
                flags2 = 0xffff_ffff;
            }
            1 => flags |= init_ext,
            2 => flags &= !init_ext,
            _ => {}
        }
        // body length: legacy 16 bytes, full, or truncated in between
        let blen = match r.below(6) {
            0 => 16,
            1 => r.range(17, full as u64 - 1) as usize,
            _ => full,
        };
        let max_readahead = r.edge(32);
        let mut b = Body::new();
        let s = b.st("fuse_init_in");
        b.set(s, "fuse_init_in", "major", major);
        b.set(s, "fuse_init_in", "minor", minor);
        b.set(s, "fuse_init_in", "max_readahead", max_readahead);
        b.set(s, "fuse_init_in", "flags", flags);
        b.set(s, "fuse_init_in", "flags2", flags2);
        b.b.truncate(blen);
        let unique = r.next() | 1;
        let req = header(kconst("FUSE_INIT") as u32, unique, 0, 0, 0, 0, &b.b);
        // what the filesystem asks for
        let mut want = 0u64;
        match r.below(6) {
            0 => want = all_known,
            1 => want = 0,
            _ => {
                for (_, bit) in &bits {
                    if r.chance(1, 2) {
                        want |= bit;
                    }
                }
            }
        }
        if r.chance(1, 2) {
            want &= !init_ext; // no in-tree filesystem asks for the marker itself
        }
        let init_err = if r.chance(1, 16) { Some(r.range(1, 133) as i32) } else { None };
        let script = Script { want, init_err, ..Default::default() };
        let (fs, srv) = new_server(r.next(), script);
        let cap = 4096;
        let tx = pick_tx(&mut r, req.len(), cap);
        let out = env.exec(&srv, &tx, &req, cap, false);
        rep.eval();
        let log = fs.take_log();
        let ext_present = blen >= full;
        let mut capable = flags;
        if flags & init_ext != 0 {
            if ext_present {
                capable |= flags2 << 32;
            } else {
                capable &= !init_ext;
            }
        }
        let major_cls = if major < 7 { "lt7" } else if major > 7 { "gt7" } else { "7" };
        let minor_cls = if minor < 5 { "lt5" } else if minor < 23 { "lt23" } else if minor < 36 { "lt36" } else { "ge36" };
        rep.count(&format!("major:{}", major_cls), 1);
        rep.count(&format!("minor:{}", minor_cls), 1);
        rep.key(&format!(
            "{}|{}|ext{}|initext{}|wanthi{}|caphi{}|err{}|{}",
            major_cls,
            minor_cls,
            ext_present,
            flags & init_ext != 0,
            (want >> 32) != 0,
            (capable >> 32) != 0,
            init_err.is_some(),
            out.transport
        ));
        let mut fail: Option<(String, String)> = None;
        let mut bad = |sig: &str, why: String| {
            if fail.is_none() {
                fail = Some((format!("C12:{}", sig), why));
            }
        };
        if let Some(p) = &out.panic {
            bad("panic", p.clone());
        } else if out.records.len() != 1 {
            bad("reply-count", format!("{} replies to INIT (ret {:?})", out.records.len(), out.ret));
        } else {
            let rec = &out.records[0];
            let h = parse_out_header(rec).unwrap();
            let body = &rec[OUT_HDR..];
            if h.unique != unique || h.len as usize != rec.len() {
                bad("header", format!("bad header {:?}", h));
            }
            let other_calls: Vec<&str> = log.iter().filter(|c| c.method != "init").map(|c| c.method).collect();
            if !other_calls.is_empty() {
                bad("extra-fs-call", format!("INIT invoked {:?}", other_calls));
            }
            let inits = log.iter().filter(|c| c.method == "init").count();
            if major < 7 {
                if h.error != -libc::EPROTO {
                    bad("major-lt7", format!("major {} answered with error {} instead of -EPROTO", major, h.error));
                }
                if inits != 0 {
                    bad("major-lt7-fs-called", "filesystem init called for an unsupported major".into());
                }
            } else if major > 7 {
                if h.error != 0 || body.len() < 8 {
                    bad("major-gt7", format!("major {} must be answered with a 7.x version reply, got error {} / {} body bytes", major, h.error, body.len()));
                } else {
                    let m = get(body, 0, "fuse_init_out", "major").unwrap();
                    if m != 7 {
                        bad("major-gt7-version", format!("reply major {}", m));
                    }
                    let fl = get(body, 0, "fuse_init_out", "flags").unwrap_or(0);
                    let fl2 = get(body, 0, "fuse_init_out", "flags2").unwrap_or(0);
                    if fl != 0 || fl2 != 0 {
                        bad("major-gt7-flags", format!("version-only reply enables features {:#x}/{:#x}", fl, fl2));
                    }
                }
                if inits != 0 {
                    bad("major-gt7-fs-called", "filesystem init called before the version is agreed".into());
                }
            } else if inits != 1 {
                bad("init-calls", format!("filesystem init called {} times", inits));
            } else if let Some(e) = init_err {
                if h.error != -e || !body.is_empty() {
                    bad("init-error", format!("init failed with {}, reply error {} body {}", e, h.error, body.len()));
                }
            } else {
                // argument seen by the filesystem
                let seen = match log.iter().find(|c| c.method == "init").and_then(|c| c.arg("capable")) {
                    Some(vkit::scriptfs::V::U(u)) => *u,
                    _ => 0,
                };
                if seen & !capable != 0 {
                    bad("capable-extra", format!("filesystem told the client supports {:#x}, client offered {:#x}", seen, capable));
                }
                if (want & capable) & !seen != 0 {
                    bad("capable-missing", format!("client offered {:#x}, filesystem was told {:#x} (wanted {:#x})", capable, seen, want));
                }
                let want_seen = match log.iter().find(|c| c.method == "init").map(|c| &c.res) {
                    Some(Res::Init(w)) => *w,
                    _ => want,
                };
                let expect_sz = if minor < 5 {
                    kconst("FUSE_COMPAT_INIT_OUT_SIZE") as usize
                } else if minor < 23 {
                    kconst("FUSE_COMPAT_22_INIT_OUT_SIZE") as usize
                } else {
                    ksize("fuse_init_out")
                };
                if h.error != 0 {
                    bad("error-on-success", format!("error {}", h.error));
                } else if body.len() != expect_sz {
                    bad("layout", format!("minor {} expects a {}-byte init reply, got {}", minor, expect_sz, body.len()));
                } else {
                    let g = |f: &str| get(body, 0, "fuse_init_out", f);
                    if g("major") != Some(7) {
                        bad("reply-major", format!("{:?}", g("major")));
                    }
                    if expect_sz >= 24 {
                        let rf = g("flags").unwrap();
                        let rf2 = if expect_sz >= 64 { g("flags2").unwrap() } else { 0 };
                        // what the client will honour
                        let honoured = rf | if rf & init_ext != 0 { rf2 << 32 } else { 0 };
                        let expect = capable & want_seen;
                        let cmp_mask = if expect_sz >= 64 { !init_ext } else { 0xffff_ffff & !init_ext };
                        if (honoured ^ expect) & cmp_mask != 0 {
                            let diff = (honoured ^ expect) & cmp_mask;
                            let which: Vec<&str> = bits.iter().filter(|(_, b)| b & diff != 0).map(|(n, _)| n.as_str()).collect();
                            let kind = if rf & init_ext == 0 && rf2 != 0 { "ext-bits-without-marker" } else { "flags" };
                            bad(
                                kind,
                                format!(
                                    "client offered {:#x}, filesystem wants {:#x}: expected enabled {:#x}; reply flags={:#x} flags2={:#x} => client honours {:#x} (differs in {:?})",
                                    capable, want_seen, expect, rf, rf2, honoured, which
                                ),
                            );
                        }
                        if rf & init_ext != 0 && capable & init_ext == 0 {
                            bad("marker-not-offered", "reply carries FUSE_INIT_EXT although the client did not offer it".into());
                        }
                        if rf2 != 0 && rf & init_ext == 0 {
                            bad("ext-bits-without-marker", format!("reply flags2={:#x} without FUSE_INIT_EXT in flags={:#x}", rf2, rf));
                        }
                        let mra = g("max_readahead").unwrap();
                        if mra > max_readahead {
                            bad("max-readahead", format!("reply {} > request {}", mra, max_readahead));
                        }
                        let mw = g("max_write").unwrap();
                        let enabled = expect;
                        let big = enabled & (kconst("FUSE_BIG_WRITES") | kconst("FUSE_MAX_PAGES")) != 0;
                        let want_mw: u64 = if big { 1 << 20 } else { 4096 };
                        if mw != want_mw {
                            bad("max-write", format!("max_write {} (big writes / max pages negotiated: {})", mw, big));
                        }
                        if mw + 4096 > (1 << 20) + 4096 {
                            bad("max-write-buffer", format!("max_write {} + header exceeds the session buffer", mw));
                        }
                        if expect_sz >= 64 && enabled & kconst("FUSE_MAX_PAGES") != 0 {
                            let mp = g("max_pages").unwrap();
                            if mp * 4096 < mw || mp == 0 {
                                bad("max-pages", format!("max_pages {} cannot carry max_write {}", mp, mw));
                            }
                        }
                    }
                }
            }
        }
        if let Some((sig, why)) = fail {
            rep.violation(
                &sig,
                idx,
                J::obj(vec![
                    ("why", J::s(why)),
                    ("major", J::U(major)),
                    ("minor", J::U(minor)),
                    ("flags", J::s(format!("{:#x}", flags))),
                    ("flags2", J::s(format!("{:#x}", flags2))),
                    ("body_len", J::U(blen as u64)),
                    ("fs_want", J::s(format!("{:#x}", want))),
                    ("request_bytes", J::hex_full(&req)),
                    ("transport", tx.j()),
                    ("outcome", outcome_json(&out)),
                ]),
            );
        } else if rep.want_sample() {
            rep.sample(J::obj(vec![
                ("major", J::U(major)),
                ("minor", J::U(minor)),
                ("flags", J::s(format!("{:#x}", flags))),
                ("flags2", J::s(format!("{:#x}", flags2))),
                ("body_len", J::U(blen as u64)),
                ("fs_want", J::s(format!("{:#x}", want))),
                ("reply", outcome_json(&out)),
            ]));
        }
    }
}

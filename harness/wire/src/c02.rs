//! C02 — each request is decoded into exactly the operation and arguments the client sent.
use vkit::gen::{gen_request, GenReq, OPS};
use vkit::json::J;
use vkit::prng::Rng;
use vkit::run::{Args, Report};
use vkit::scriptfs::{Call, Script, V};

use crate::common::*;

/// Compare the filesystem call log of one request with what the request denotes.
/// Returns Err((sig, explanation)).
pub fn check_decode(g: &GenReq, log: &[Call]) -> Result<(), (String, String)> {
    match &g.expect {
        None => {
            if let Some(c) = log.first() {
                return Err((format!("C02:{}:unexpected-call:{}", g.opname, c.method), format!("no filesystem operation expected, got {}", c.method)));
            }
            Ok(())
        }
        Some((method, args)) => {
            if log.is_empty() {
                return Err((format!("C02:{}:no-call", g.opname), format!("expected one call of {}, filesystem saw none", method)));
            }
            if log.len() > 1 {
                let names: Vec<&str> = log.iter().map(|c| c.method).collect();
                return Err((format!("C02:{}:extra-calls", g.opname), format!("expected exactly one call of {}, got {:?}", method, names)));
            }
            let c = &log[0];
            if c.method != *method {
                return Err((format!("C02:{}:wrong-method:{}", g.opname, c.method), format!("expected {}, filesystem saw {}", method, c.method)));
            }
            if *method == "init" {
                return Ok(());
            }
            for (name, val) in args {
                match c.arg(name) {
                    None => return Err((format!("C02:{}:arg-missing:{}", g.opname, name), format!("argument {} not logged", name))),
                    Some(got) if got != val => {
                        return Err((
                            format!("C02:{}:arg:{}", g.opname, name),
                            format!("argument {}: client encoded {}, filesystem received {}", name, val.j().dump(), got.j().dump()),
                        ))
                    }
                    _ => {}
                }
            }
            // every logged argument must be one the request determines
            for (name, got) in &c.args {
                let exp = match *name {
                    "uid" => Some(V::U(g.uid as u64)),
                    "gid" => Some(V::U(g.gid as u64)),
                    "pid" => Some(V::U(g.pid as u64)),
                    _ => None,
                };
                if let Some(e) = exp {
                    if *got != e {
                        return Err((
                            format!("C02:{}:ctx:{}", g.opname, name),
                            format!("caller {}: client encoded {}, filesystem received {}", name, e.j().dump(), got.j().dump()),
                        ));
                    }
                } else if !args.iter().any(|(n, _)| n == name) {
                    return Err((format!("C02:{}:arg-unexpected:{}", g.opname, name), format!("filesystem received an argument {} the oracle has no value for", name)));
                }
            }
            Ok(())
        }
    }
}

pub fn run(args: &Args, rep: &mut Report) {
    let env = Env::new();
    for idx in args.indices() {
        if rep.too_many() {
            break;
        }
        let mut r = Rng::derive(args.seed, "C02", idx, 0);
        let opname = OPS[(idx % OPS.len() as u64) as usize];
        rep.begin(idx, opname);
        let big = idx % 97 == 0;
        let opts = gen_opts(big);
        let g = gen_request(&mut r, opname, &opts);
        // errors and successes both must decode identically
        let script = Script { err_permille: 300, ..Default::default() };
        let (fs, srv) = new_server(r.next(), script);
        let cap = ample_capacity(&g);
        let tx = pick_tx(&mut r, g.bytes.len(), cap);
        let out = env.exec(&srv, &tx, &g.bytes, cap, g.needs_vu);
        rep.eval();
        let log = fs.take_log();
        rep.count(&format!("op:{}", g.opname), 1);
        rep.count(&format!("transport:{}", out.transport), 1);
        let outcome_cls = log.first().map(|c| c.res.class()).unwrap_or("nocall");
        rep.key(&format!("{}|{}|{}|{}", g.opname, g.key, tx.class(), outcome_cls));
        if let Some(p) = &out.panic {
            // a panic is C01's verdict; here it only means nothing was decoded
            rep.inconclusive("panic-during-decode", J::obj(vec![("request", req_json(&g)), ("panic", J::s(p))]));
            continue;
        }
        if let Err((sig, why)) = check_decode(&g, &log) {
            rep.violation(
                &sig,
                idx,
                J::obj(vec![
                    ("why", J::s(why)),
                    ("request", req_json(&g)),
                    ("transport", tx.j()),
                    ("fs_log", J::A(log.iter().map(|c| c.j()).collect())),
                    ("outcome", outcome_json(&out)),
                ]),
            );
        } else if rep.want_sample() {
            rep.sample(J::obj(vec![("request", req_json(&g)), ("transport", tx.j()), ("fs_log", J::A(log.iter().map(|c| c.j()).collect()))]));
        }
    }
}

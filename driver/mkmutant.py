#!/usr/bin/env python3
"""Development helper: make a mutant patch by exact string replacement.
usage: mkmutant.py <name> <file-relative-to-/repo> <old> <new> [count]
Writes /verif/mutants/<name>.patch (git diff) and restores /repo."""
import subprocess, sys
name, rel, old, new = sys.argv[1:5]
p = '/repo/' + rel
s = open(p).read()
n = s.count(old)
if n == 0:
    print('mkmutant: pattern not found'); sys.exit(2)
if n > 1 and len(sys.argv) < 6:
    print('mkmutant: pattern found %d times; pass occurrence index' % n); sys.exit(2)
if len(sys.argv) >= 6:
    k = int(sys.argv[5]); idx = -1
    for _ in range(k + 1):
        idx = s.index(old, idx + 1)
    s2 = s[:idx] + new + s[idx + len(old):]
else:
    s2 = s.replace(old, new)
open(p, 'w').write(s2)
d = subprocess.run(['git', '-C', '/repo', 'diff'], stdout=subprocess.PIPE, text=True).stdout
open('/verif/mutants/%s.patch' % name, 'w').write(d)
subprocess.run(['git', '-C', '/repo', 'checkout', '--', rel])
print('wrote /verif/mutants/%s.patch (%d lines)' % (name, d.count('\n')))

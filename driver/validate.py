#!/usr/bin/env python3
"""Validate MANIFEST.json and evidence files against the schemas (development helper, python3-vt has jsonschema)."""
import json, glob, sys, jsonschema
ok = True
jsonschema.validate(json.load(open('/verif/MANIFEST.json')), json.load(open('/root/.vp/MANIFEST.schema.json')))
sch = json.load(open('/root/.vp/EVIDENCE.schema.json'))
for f in sorted(glob.glob('/verif/evidence/*.json')):
    try:
        jsonschema.validate(json.load(open(f)), sch)
    except Exception as e:
        ok = False
        print('INVALID', f, str(e)[:300])
print('valid' if ok else 'INVALID')
sys.exit(0 if ok else 1)

"""Per-property check configuration: stages (what is run under which build), level, coverage rule."""


def wire_stage(prop, cases, name="native", kind="native", **kw):
    d = {"name": name, "kind": kind, "pkg": "wire", "bin": "wire", "prop": prop, "cases": cases, "core": kind == "native"}
    d.update(kw)
    return d


def c01_stages(tier):
    if tier == "quick":
        return [wire_stage("C01", 50_000, crash_is_violation=True),
                wire_stage("C01", 128, name="miri", kind="miri", shards=16, timeout=600)]
    return [wire_stage("C01", 1_500_000, timeout=3600, crash_is_violation=True),
            wire_stage("C01", 300_000, name="checked", kind="checked", timeout=3600, crash_is_violation=True),
            wire_stage("C01", 40_000, name="asan", kind="asan", timeout=1800, crash_is_violation=True),
            wire_stage("C01", 3_000, name="valgrind", kind="valgrind", timeout=2400),
            wire_stage("C01", 2400, name="miri", kind="miri", shards=16, timeout=3000)]


def c02_stages(tier):
    if tier == "quick":
        return [wire_stage("C02", 150_000), wire_stage("C02", 192, name="miri", kind="miri", shards=16, timeout=600)]
    return [wire_stage("C02", 3_000_000, timeout=3600), wire_stage("C02", 1600, name="miri", kind="miri", shards=16, timeout=2400)]


def c03_stages(tier):
    if tier == "quick":
        return [wire_stage("C03", 150_000), wire_stage("C03", 192, name="miri", kind="miri", shards=16, timeout=600)]
    return [wire_stage("C03", 3_000_000, timeout=3600), wire_stage("C03", 1600, name="miri", kind="miri", shards=16, timeout=2400)]


def xport_stage(prop, cases, name="native", kind="native", **kw):
    d = {"name": name, "kind": kind, "pkg": "xport", "bin": "xport", "prop": prop, "cases": cases, "core": kind == "native"}
    d.update(kw)
    return d


def c04_stages(tier):
    if tier == "quick":
        return [xport_stage("C04", 300_000, crash_is_violation=True), xport_stage("C04", 480, name="miri", kind="miri", shards=16, timeout=600)]
    return [xport_stage("C04", 6_000_000, timeout=3600, crash_is_violation=True),
            xport_stage("C04", 1_000_000, name="checked", kind="checked", timeout=3600, crash_is_violation=True),
            xport_stage("C04", 200_000, name="asan", kind="asan", timeout=1800, crash_is_violation=True),
            xport_stage("C04", 6_000, name="valgrind", kind="valgrind", timeout=2400),
            xport_stage("C04", 16_000, name="miri", kind="miri", shards=16, timeout=3000)]


def c17_stages(tier):
    if tier == "quick":
        return [xport_stage("C17", 120_000, crash_is_violation=True), xport_stage("C17", 160, name="miri", kind="miri", shards=16, timeout=600)]
    return [xport_stage("C17", 3_000_000, timeout=3600, crash_is_violation=True),
            xport_stage("C17", 6_000, name="miri", kind="miri", shards=16, timeout=3600)]


def c13_stages(tier):
    cases = 400_000 if tier == "quick" else 40_000_000
    return [{"name": "native", "kind": "native", "pkg": "abi", "bin": "abi", "prop": "C13", "cases": cases, "core": True, "timeout": 1200}]


def vfsx_stage(prop, cases, name="native", kind="native", **kw):
    d = {"name": name, "kind": kind, "pkg": "vfsx", "bin": "vfsx", "prop": prop, "cases": cases, "core": kind == "native", "features": ("persist",)}
    d.update(kw)
    return d


def c07_stages(tier):
    return [vfsx_stage("C07", 12_000 if tier == "quick" else 150_000, timeout=2400, crash_is_violation=True)]


def c14_stages(tier):
    return [vfsx_stage("C14", 12_000 if tier == "quick" else 150_000, timeout=2400, crash_is_violation=True)]


def c19_stages(tier):
    return [vfsx_stage("C19", 3_200 if tier == "quick" else 15_000, timeout=3600, crash_is_violation=True)]


def ptfs_stage(prop, cases, name="native", kind="native", **kw):
    d = {"name": name, "kind": kind, "pkg": "ptfs", "bin": "ptfs", "prop": prop, "cases": cases, "core": kind == "native"}
    d.update(kw)
    return d


def c05_stages(tier):
    st = [ptfs_stage("C05", 6_144 if tier == "quick" else 30_000, timeout=3600, crash_is_violation=True)]
    if tier == "thorough":
        # the same monitors with the crate and harness built under AddressSanitizer
        st.append(ptfs_stage("C05", 1024, name="asan", kind="asan", core=False, timeout=3600, crash_is_violation=True))
    return st


def c06_stages(tier):
    n = 3_600 if tier == "quick" else 60_000
    return [ptfs_stage("C06", n, timeout=2400, crash_is_violation=True),
            vfsx_stage("C06", 3_000 if tier == "quick" else 40_000, name="vfs-scripted-backends", timeout=3600, core=False)]


def c08_stages(tier):
    st = [ptfs_stage("C08", 6_000 if tier == "quick" else 60_000, timeout=3600, crash_is_violation=True),
          # validity of an inode number while references are held, under concurrent LOOKUP/FORGET: the C09 schedule explorer, smaller
          ptfs_stage("C09", 160 if tier == "quick" else 1_500, name="concurrent-lookup-forget", core=False, timeout=1800, crash_is_violation=True,
                     args={"stress": 2 if tier == "quick" else 20, "walks": 8})]
    if tier == "thorough":
        # the same monitors with the crate and harness built under AddressSanitizer
        st.append(ptfs_stage("C08", 2000, name="asan", kind="asan", core=False, timeout=3600, crash_is_violation=True))
    return st


def c09_stages(tier):
    if tier == "quick":
        return [ptfs_stage("C09", 480, timeout=1200, crash_is_violation=True, args={"stress": 4, "walks": 12})]
    return [ptfs_stage("C09", 6_000, timeout=3600, crash_is_violation=True, args={"stress": 60, "walks": 40}),
            ptfs_stage("C09", 0, name="tsan", kind="tsan", timeout=3000, shards=4, args={"stress": 120})]


def c10_stages(tier):
    # model-vs-kernel: the reference union model against the kernel's own overlayfs on the same universes (oracle self-check, crate not involved)
    return [ptfs_stage("C10", 1_440 if tier == "quick" else 6_000, timeout=3600, crash_is_violation=True),
            ptfs_stage("C10", 320 if tier == "quick" else 4_000, name="model-vs-kernel", core=False, timeout=3600, args={"kernel": 1})]


def c11_stages(tier):
    st = [ptfs_stage("C11", 1_440 if tier == "quick" else 6_000, timeout=3600, crash_is_violation=True)]
    if tier == "thorough":
        # the same monitors with the crate and harness built under AddressSanitizer
        st.append(ptfs_stage("C11", 320, name="asan", kind="asan", core=False, timeout=3600, crash_is_violation=True))
    return st


def c20_stages(tier):
    st = {"name": "native", "kind": "native", "pkg": "asyncx", "bin": "asyncx", "prop": "C20", "core": True, "timeout": 3600, "crash_is_violation": True}
    st["cases"] = 60_000 if tier == "quick" else 1_500_000
    out = [st]
    if tier == "thorough":
        out.append(dict(st, name="asan", kind="asan", cases=200_000, core=False))
    return out


def c15_stages(tier):
    st = [ptfs_stage("C15", 12_000 if tier == "quick" else 100_000, timeout=3600, crash_is_violation=True)]
    if tier == "thorough":
        # the same monitors with the crate and harness built under AddressSanitizer
        st.append(ptfs_stage("C15", 4000, name="asan", kind="asan", core=False, timeout=3600, crash_is_violation=True))
    return st


def c16_stages(tier):
    st = [ptfs_stage("C16", 4_800 if tier == "quick" else 60_000, timeout=3600, crash_is_violation=True)]
    if tier == "thorough":
        # the same monitors with the crate and harness built under AddressSanitizer
        st.append(ptfs_stage("C16", 1200, name="asan", kind="asan", core=False, timeout=3600, crash_is_violation=True))
    return st


def c18_stages(tier):
    st = [ptfs_stage("C18", 9_000 if tier == "quick" else 50_000, timeout=3600, crash_is_violation=True)]
    if tier == "thorough":
        # the same monitors with the crate and harness built under AddressSanitizer
        st.append(ptfs_stage("C18", 1500, name="asan", kind="asan", core=False, timeout=3600, crash_is_violation=True))
    return st


def c12_stages(tier):
    if tier == "quick":
        return [wire_stage("C12", 200_000), ptfs_stage("C12", 1_600, name="stack-toggles", core=False, timeout=1200),
                wire_stage("C12", 160, name="miri", kind="miri", shards=16, timeout=600)]
    return [wire_stage("C12", 4_000_000, timeout=3600), ptfs_stage("C12", 30_000, name="stack-toggles", core=False, timeout=3600),
            wire_stage("C12", 3200, name="miri", kind="miri", shards=16, timeout=2400)]


PROPS = {
    "C01": {
        "level": "exploration",
        "stages": c01_stages,
        "floor": 1000,
        "technique": "runtime monitoring: hostile-input stress of handle_message with reply-stream monitors (one SEQPACKET record per write call, "
                     "guest-memory byte diff, guard-band canaries) plus Miri / ASan / valgrind / overflow-checked builds",
        "level_text": "Well-formed requests of all 47 opcodes, 12 structured mutation classes and random byte strings are fed through the real "
                      "handle_message over fusedev (separate and aliased buffers) and virtio (random and exhaustive single-cut chains) at reply "
                      "capacities {0,1,15,16,17,need-1,need,need+1,...}; monitors count write calls, parse every emitted record, diff all memory "
                      "around the buffers and attribute crashes to the case in flight. Sanitizer tiers re-run the workload under Miri (virtio), "
                      "ASan, valgrind and a debug-assert/overflow-checked build. Sampled: held on K executions.",
        "level_note": "Trusts the harness' notion of 'well-formed' (the C02 generator) and 'sufficient capacity' (reply length learnt from an ample-capacity run "
                      "of the same seeded script). id_remap failures are not scripted. Miri cannot execute the /dev/fuse writer (writev).",
        "rule": "case = (opcode, class in {well-formed x capacity probes, 12 mutation classes, random bytes}); distinct = (opcode, mutation class, "
                "transport/segmentation class, capacity class, outcome class) plus every (opcode, cut position) of the exhaustive single-cut sweep; "
                "all cases reach handle_message (non-trivial).",
        "assumptions": ["kernel layout table from /usr/include/linux/fuse.h", "SOCK_SEQPACKET delivers one record per write()/writev()"],
    },
    "C04": {
        "level": "exploration",
        "stages": c04_stages,
        "floor": 1000,
        "technique": "runtime monitoring: model-based op-sequence testing of Reader / VirtioFsWriter / FuseDevWriter / FileVolatileSlice / File adapters against "
                     "flat-vector and plain-view reference models, with canaries; Miri, ASan, valgrind, overflow-checked stages",
        "level_text": "Random operation sequences (read, read_exact, read_obj, read_to(_at), read_exact_to, split_at; write, write_all, write_vectored, write_obj, "
                      "write_from(_at), write_all_from, split_at, commit) over random descriptor chains (0/1-byte segments, page straddling, 1-3 regions) and "
                      "/dev/fuse buffers are checked op by op against a flat byte-vector model: returned bytes, counters, overflow refusal, final memory "
                      "content, exactly one device record. FileVolatileSlice is compared differentially with a plain VolatileSlice; File adapters with a Vec model.",
        "level_note": "Respects the documented precondition that an unbuffered FuseDevWriter is one-shot. State after a failed read_exact is only required to be "
                      "monotone. Under Miri file sources are in-memory and the fusedev writer is excluded (writev).",
        "rule": "case = one op sequence of kind {virtio reader, virtio writer, fusedev reader, fusedev writer, buffer adapter, file adapter}; distinct = "
                "(kind, first six op kinds, chain-shape class, pass/fail); all cases execute at least one op (non-trivial).",
        "assumptions": ["vm-memory VolatileSlice is the reference for 'plain view' semantics"],
    },
    "C17": {
        "level": "exploration",
        "stages": c17_stages,
        "floor": 1000,
        "technique": "runtime monitoring: exact dirty-page-set oracle over GuestMemoryMmap<AtomicBitmap> for writer API sequences and whole requests; Miri stage",
        "level_text": "For random chain layouts biased to page edges, writer API sequences and whole requests (READ, READDIR(PLUS), GETXATTR, READLINK, LOOKUP, ...) "
                      "run against guest memory with an AtomicBitmap; afterwards the dirty set must equal exactly the pages intersecting written ranges "
                      "(sequences) / contain every modified page and no page beyond the reply (requests); readers and the queue region must stay clean.",
        "level_note": "Page size 4096 (AtomicBitmap default). For a READDIR whose add_entry failed, only soundness (modified => dirty) is checked.",
        "rule": "case = writer sequence | reader sequence | whole request; distinct = (op kinds, number of expected dirty pages, regions) resp. "
                "(opcode, dirty/touched page counts, regions, reply count).",
        "assumptions": ["vm-memory AtomicBitmap semantics"],
    },
    "C13": {
        "level": "exploration",
        "stages": c13_stages,
        "floor": 400,
        "exhaustive": True,
        "technique": "runtime monitoring: crate struct layouts/constants probed at run time (offset_of, size_of, stamped as_slice bytes) against a table "
                     "emitted by a C probe compiled against the kernel uapi header; exhaustive sweep of Opcode::from over all 2^32 values; randomized "
                     "stat conversion checks",
        "level_text": "Every pub struct of abi::fuse_abi and abi::virtio_fs is compared field by field (offset, width, and where the stamped bytes show up in "
                      "ByteValued::as_slice) with the layout a C probe prints for the installed kernel header; every opcode, notify code and flag constant "
                      "with the header's value; Opcode::from is evaluated on all 2^32 inputs; stat64/statvfs64/SetattrIn conversions on random and boundary "
                      "values in both directions. The struct/constant table and the opcode space are enumerated completely (exhaustive), conversions sampled.",
        "level_note": "Explicit rule classes: compat-prefix (SetxattrIn), crate-split (InitIn+InitIn2), renamed padding words (OpenOut.passthrough=backing_id, "
                      "InHeader.padding=total_extlen+padding, NotifyInvalEntryOut.padding=flags); FD_PASSTHROUGH and MaxOpcode are crate-only. Two constants "
                      "newer than the installed header come from a supplementary table. x86_64 only.",
        "rule": "one evaluation per (struct, field), per struct size, per constant, per opcode number (2^32) and per random stat conversion; distinct = "
                "(struct, field) / constant names / first conversions; nothing is trivial.",
        "assumptions": ["/usr/include/linux/fuse.h is protocol 7.38", "FUSE_HAS_RESEND = 1<<39 and FUSE_NOTIFY_RESEND = 7 (uapi 7.40)"],
    },
    "C07": {
        "level": "exploration",
        "stages": c07_stages,
        "floor": 1000,
        "technique": "runtime monitoring: numbered logging backends mounted in a real Vfs behind a real Server; per-request routing oracle from a client-side "
                     "model of slots, mount points and pseudo directories over random mount/over-mount/umount/request histories (incl. index wrap-around)",
        "level_text": "Histories of mount / over-mount / umount at paths /, /a, /a/b, ... (with bursts of 100-300 cycles to wrap the 8-bit index) interleaved with "
                      "42 request kinds on handed-out, stale, fabricated, pseudo and root inode numbers. After every request the call logs of all backends must "
                      "show exactly one call on the owning backend with its own inode number (none for vacant slots, pseudo inodes, cross-mount link/rename, "
                      "operations the Vfs does not forward); replies must carry the same number for a name in lookup/getattr/readdir/readdirplus and the "
                      "mount root exactly at the mount path.",
        "level_note": "Backends are self-consistent by construction (NumFs). lseek/getlk/setlk/ioctl/bmap/poll are not forwarded by the Vfs type at all (documented "
                      "limitation, recorded as unserved_by_vfs). Slot indices are learnt from mount()'s return value and checked against the model's vacancy.",
        "rule": "case = one history (20-120 steps); evaluations = client requests; distinct = (request kind, routing class backend/pseudo/vacant, mapping class, "
                "name class); every request is non-trivial.",
        "assumptions": ["in-process client over the /dev/fuse transport stand-in"],
    },
    "C14": {
        "level": "exploration",
        "stages": c14_stages,
        "floor": 1000,
        "technique": "runtime monitoring: id-translation oracle (independent 3-line remap) on backend call logs and reply owner ids over mount histories with "
                     "global / per-mount / overlapping mappings and slot reuse",
        "level_text": "Same engine as C07 with a global mapping and per-mount mappings drawn from disjoint, overlapping and full-range candidates; caller ids and "
                      "setattr owner ids seen by the backend must equal ext->int under the effective mapping of the routed mount (own mapping if given, else "
                      "global), reply owner ids (lookup, getattr, setattr, create, mkdir, mknod, symlink, link, readdirplus, mount roots via lookup and via "
                      "readdirplus) must equal int->ext, ids at and around the range edges included.",
        "level_note": "The effective mapping of a request on the root inode is taken to be that of the filesystem mounted at / (the mount that serves it).",
        "rule": "case = one history; evaluations = client requests; distinct = (request kind, routing class, mapping class none/global/per-mount, name class).",
        "assumptions": ["ids drawn from 19 values around the edges of the candidate ranges"],
    },
    "C19": {
        "level": "exploration",
        "stages": c19_stages,
        "floor": 500,
        "technique": "runtime monitoring: differential twin (live Vfs vs state saved and restored into a fresh Vfs with twin backends) after every prefix of "
                     "random mount/umount/INIT histories, comparing client-visible transcripts, backend call logs and the behaviour of the next operation",
        "level_text": "After every prefix of a history the live Vfs is saved (current format, or the previous format through a cfg-guarded hook), restored into a "
                      "fresh Vfs (Vfs::new(VfsOptions::default()) or same options), twin backends are re-attached at the recorded indices, and an observation "
                      "script (path walks of all mount paths, getattr/lookup/setattr/open/opendir on pre-save inode numbers with mapped ids, readdirplus, a "
                      "second INIT) must produce identical transcripts and identical backend-side call logs; then the next history step is applied to both "
                      "and must return the same index / result and the same transcript again.",
        "level_note": "Pseudo-directory timestamps (stamped with 'now') are excluded from the comparison. Version-1 snapshots are only produced for histories "
                      "without per-mount mappings (the documented default for what that format cannot carry).",
        "rule": "case = one history (2-9 steps, optionally after a 10-260 cycle allocator burst); evaluations = save/restore points; distinct = (format, fresh-Vfs "
                "kind, initialised?, global mapping?, number of mounts, step kind).",
        "assumptions": ["twin NumFs backends are deterministic functions of their id"],
    },
    "C05": {
        "level": "exploration",
        "stages": c05_stages,
        "floor": 1000,
        "technique": "runtime monitoring: differential execution - syscall-level operations decomposed into FUSE requests the way the Linux client does, against "
                     "a passthrough export, vs the same system calls on a shadow directory; reply, tree and thread-credential monitors after every operation",
        "level_text": "Two directories with identical random initial trees (files incl. setuid/setgid modes, directories with 0755/0777/0700/sticky modes, "
                      "symlinks, FIFOs, device nodes). Each operation (lstat, open with O_CREAT/O_EXCL/O_TRUNC/O_APPEND + read/write/fsync/fallocate/lseek "
                      "SEEK_DATA|HOLE/close, mkdir, mknod, symlink, link, unlink, rmdir, rename with NOREPLACE/EXCHANGE, chmod, chown, truncate, utimens, "
                      "readlink, xattr set/get/list/remove, statfs, special-file handling) runs through the in-process client on the export and as the "
                      "plain system call on the shadow; errno, attributes (type, mode, nlink, uid, gid, size, rdev, blksize), data, link targets, xattr values "
                      "must agree and afterwards the two trees must be equal (names, types, modes, owners, sizes, content, targets, xattrs, hard-link "
                      "partition). After every request euid/egid must be 0 and CAP_FSETID effective. The 128 combinations of no_open x no_opendir x "
                      "inode_file_handles x use_host_ino x writeback x xattr (x 4 cache policies) are walked by case index.",
        "level_note": "Decisions the Linux VFS takes before calling the filesystem (negative/positive dentry, type mismatches, O_EXCL, rename type rules) are taken "
                      "client-side. Non-root callers are only used for pure creations whose ancestor directories are searchable by others (the server never "
                      "walks paths with caller credentials; the Linux client does). Times, st_blocks, directory sizes, inode and device numbers, free-space "
                      "counters are not compared; explicit utimens values are. No concurrent host-side modification.",
        "rule": "evaluations = operations; distinct = (operation kind, full configuration tuple).",
        "assumptions": ["both directories on the same ext4 file system", "runs as root with CAP_FSETID"],
    },
    "C06": {
        "level": "exploration",
        "stages": c06_stages,
        "floor": 1000,
        "technique": "runtime monitoring: sentinel-tree snapshots around the export root, reply-attribute and data-token monitors, adversarial-name oracle; "
                     "standalone and VFS-fronted passthrough under stress from a second thread that keeps opening/closing a tagged file outside the export (descriptor-number reuse), "
                     "plus backend-log emptiness for rejected names with scripted backends behind the VFS",
        "level_text": "An export directory sits inside a sentinel tree (siblings, a parent-level secret file with a random token, targets of absolute and relative "
                      "symlinks placed in the export). Hostile raw requests (lookups/creates/mkdir/mknod/symlink/link/unlink/rmdir/rename(2) with names '.', "
                      "'..', 'a/b', '/abs', '../x', 'x/', './x', '..\\0junk'; open/read/write/setattr/xattr/readlink on inodes of pre-existing and freshly created "
                      "symlinks pointing outside; hard links to them) run against a standalone passthrough and a passthrough mounted in a VFS (at / and at a "
                      "sub-path). After every request the sentinel tree (content, mode, owner, mtime, ctime, names) must be unchanged, no reply may carry "
                      "the host inode of a sentinel object or the token, '..' at the root must give the root, rejected names must answer EINVAL and leave "
                      "the export unchanged. A second stage drives the same bad names through the VFS over logging backends and requires empty backend logs.",
        "level_note": "With the VFS in front attr.ino is the VFS inode number, so the host-inode check applies to the standalone runs; access times are excluded "
                      "(the snapshot itself reads the files). The second thread makes a use-after-close of a descriptor number visible only probabilistically (the number "
                      "must be re-used inside the window); the evidence counts its open/close cycles.",
        "rule": "evaluations = requests; distinct = (front, operation, rejected-name?, errno).",
        "assumptions": ["ext4 scratch directory, running as root"],
    },
    "C08": {
        "level": "exploration",
        "stages": c08_stages,
        "floor": 1000,
        "technique": "runtime monitoring: client-side reference-count model (entries delivered minus forgotten) compared continuously with the server's counts "
                     "through a read-only hook, with GETATTR validity probes, number<->host-file bijection checks and a hook-free drain at the end of each history; "
                     "a second stage runs the C09 schedule explorer (controlled interleavings of LOOKUP/FORGET at the yield-point hooks, sequential-model oracle)",
        "level_text": "Histories of lookup / create (new, existing, on a directory) / mkdir / mknod / symlink / link / readdirplus with small buffers (partially "
                      "delivered) / forget (single, partial, over-counted) / batch_forget / rename / unlink / rmdir over a tree with hard links, for every "
                      "inode_file_handles x use_host_ino setting. Every third step the server's count of every known inode must equal the model's; GETATTR "
                      "must succeed iff the count is positive (EBADF otherwise); one host file has one number and keeps it across forget and re-lookup; the "
                      "root survives forgets. At the end each inode is forgotten down to 1 (still valid) and then to 0 (invalid) without using the hook.",
        "level_note": "Numbers whose file lost its last name while tracked by file handle are excluded from then on (the statement excludes them; the host inode "
                      "may be reused). Host-inode identity comes from attr.ino of the replies. The histories of the first stage are sequential; validity under concurrent "
                      "lookup/forget is what the stage concurrent-lookup-forget (signatures C09:*) observes.",
        "rule": "evaluations = history steps; distinct = (operation, configuration, number of multiply-referenced inodes).",
        "assumptions": ["ext4 scratch directory, running as root"],
    },
    "C09": {
        "level": "exploration",
        "stages": c09_stages,
        "floor": 300,
        "technique": "runtime monitoring with schedule control: worker threads park at cfg-guarded yield points in do_lookup/forget and a controller picks who "
                     "runs next (exhaustive DFS for 2 threads, random walks for 3), sequential-model oracle; free-running stress with injected delays; TSan",
        "level_text": "2-3 threads issue lookup (through either hard-link name, each followed at once by GETATTR on the returned number), forget of the references "
                      "the client already held or of the reference the thread has just obtained, and readdirplus on one file of a real PassthroughFs. Yield points sit before the first probe, after a probe "
                      "hit, between the refcount load and the compare-exchange, before taking the map write lock, and before forget takes it - all outside "
                      "lock-held regions; a seventh point sits inside forget_one between its refcount load and its compare-exchange (write lock held) and is used "
                      "for delay injection by the stress mode only. For 2-thread programs every interleaving of these points is executed (stateless DFS); 3-thread programs get random "
                      "walks; a stress mode runs 4-12 free threads with random yields/spins/sleeps at the same points (and under ThreadSanitizer in the "
                      "thorough tier). Oracle: all lookups return one number, GETATTR after a lookup succeeds, final count = initial + delivered - forgotten.",
        "level_note": "Interleavings are controlled at hook granularity (the steps between lock acquisitions and atomics); instruction-level and weak-memory "
                      "effects are left to stress + TSan. A watchdog turns a stuck schedule into 'inconclusive'.",
        "rule": "evaluations = schedules executed (+ stress rounds); distinct = distinct (program, sequence of (thread, yield point)) interleavings observed.",
        "assumptions": ["a parked thread holds no lock (hooks are outside critical sections)"],
    },
    "C15": {
        "level": "fault_enumeration",
        "stages": c15_stages,
        "floor": 1000,
        "technique": "runtime monitoring with real fault injection: /proc/self/fd and server-table (hook) accounting at baseline vs quiescence in a "
                     "single-threaded worker, EMFILE injected by lowering RLIMIT_NOFILE to leave exactly k free descriptor numbers (k enumerated per request "
                     "kind until success, and random in histories)",
        "level_text": "Two workloads per shard: (a) enumerated sweeps - for each of 15 request kinds (lookup, open, opendir, create new/existing/on-dir, "
                      "readdirplus, mkdir, mknod, symlink, link, handle-less read, getattr, setattr(size), destroy+init) the request is repeated against a fresh "
                      "server with k = 0,1,2,... free descriptor numbers until it succeeds, so every descriptor-allocation depth fails once; (b) random "
                      "histories of open/opendir/create/release/read/readdir/forget/destroy+init with random k. Afterwards the client releases every handle "
                      "and forgets every inode, and the process must hold no more descriptors, inode objects, handles or directory-position records than "
                      "right after INIT. Handle discipline (wrong inode -> EBADF, use after release -> EBADF, no duplicate live handles) is checked inline.",
        "level_note": "The client only counts what successful replies delivered. 'No more than a fresh server': a re-initialisation that itself failed under "
                      "EMFILE may leave less. Descriptor numbers, not counts, are limited by RLIMIT_NOFILE; the harness computes the limit that leaves exactly k free.",
        "rule": "evaluations = requests; distinct = (request kind, k or none, errno, configuration) for histories and (kind, k, errno, inode_file_handles) for "
                "sweeps; every request is non-trivial.",
        "assumptions": ["worker process is single-threaded", "ext4 scratch directory, running as root"],
    },
    "C10": {
        "level": "exploration",
        "stages": c10_stages,
        "floor": 200,
        "technique": "runtime monitoring: differential of the tree seen through the real OverlayFs (kernel-like client: lookup, readdir, getattr, read, readlink) "
                     "against an executable reference union model updated per operation; byte/mode/xattr snapshots of every lower layer after every operation",
        "level_text": "Random layer universes over the names {a,b,c,d} to depth 3 (1 upper + 1-3 lowers; whiteout devices, opaque directories with both xattr spellings, "
                      "same-named files/dirs/symlinks across layers, hard-link groups) are materialised on disk; random sequences of create/mkdir/mknod/symlink/"
                      "link/unlink/rmdir/open+write/chmod/truncate/setxattr/removexattr go through the overlay and through the reference model. After every operation the "
                      "whole visible tree (names, types, permission bits, sizes, contents, link targets) must equal the model, the outcome class must equal the "
                      "reference wherever the reference is certain, every lower layer must be byte-for-byte (names, modes, contents, xattrs) what it was, and in the "
                      "universes without an upper layer every modifying operation must fail and leave the tree unchanged.",
        "level_note": "The reference model is mine (overlayfs rules as stated in the property). Stage model-vs-kernel validates that model, not the crate: the same universes "
                      "and operation sequences run against a kernel `mount -t overlay` with plain system calls and the kernel's view and outcome classes must equal the model's "
                      "(disagreements are INCONCLUSIVE model-vs-kernel:*, counters kernel:* in the evidence; one kernel artefact is excluded: rmdir of an unmerged upper directory "
                      "holding only whiteouts). rename is outside the property's operation set and not driven. Outcomes are compared by class (ok / EEXIST / ENOENT / ENOTEMPTY / ENOTDIR / EISDIR); other errno values "
                      "are not asserted.",
        "rule": "evaluations = operations applied (each followed by a full-tree comparison); distinct = (operation, reference outcome class, overlay outcome class, upper present, number of lowers).",
        "assumptions": ["reference union model implements the overlayfs rules of the statement (cross-checked against the kernel's overlayfs by stage model-vs-kernel)", "runs as root on a filesystem supporting trusted.* xattrs and 0:0 char devices"],
    },
    "C11": {
        "level": "exploration",
        "stages": c11_stages,
        "floor": 200,
        "technique": "runtime monitoring: restart differential (a fresh OverlayFs instance over the same directories after every operation prefix, full-tree comparison with "
                     "the running instance) plus copy-up monitors that inspect the upper directory on the host",
        "level_text": "The C10 universes and operation sequences; after every operation a second OverlayFs is started over the same upper and lower directories and its "
                      "complete tree (names, types, permission bits, sizes, contents, link targets) must equal the running instance's. When an operation succeeds on an object "
                      "that lived in a lower layer, the upper directory is inspected on the host: the copy must exist with the same type, the expected permission bits, the "
                      "complete prior content plus the modification, the same link target, and every parent directory created on the way must carry the mode of the lower "
                      "directory it stands for.",
        "level_note": "A restart is a new instance in the same process over the same directories (the overlay keeps no state outside them); process crash in the middle of "
                      "one operation is not injected, so 'crash point' means 'between operations'.",
        "rule": "evaluations = restart comparisons (one per operation); distinct = (operation, reference outcome class, overlay outcome class, upper present, number of lowers).",
        "assumptions": ["runs as root on a filesystem supporting trusted.* xattrs and 0:0 char devices"],
    },
    "C20": {
        "level": "exploration",
        "stages": c20_stages,
        "floor": 1000,
        "technique": "runtime monitoring: differential of async_handle_message against handle_message (crate feature async-io, the crate's own tokio-uring/tokio runtime) "
                     "on the call log of one scripted filesystem implementing both traits and on the reply bytes, over well-formed, mutated and random requests on both transports",
        "level_text": "Every request byte string (well-formed requests of all 47 opcodes, C01's 12 structured mutation classes, random bytes) goes to a fresh (ScriptFs, Server) pair "
                      "through handle_message and to another fresh pair with the same seed through async_handle_message; protocol minor is the server default or negotiated "
                      "(3/4/12/31/38). The scripted filesystem takes the same seeded decisions in both traits and logs both under the same method names; READ data goes "
                      "through write()/write_from() resp. write()/async_write_from(), WRITE data through read() resp. read()/async_read_to(). The monitor compares the complete "
                      "call logs (method, every argument, every payload byte, result) and the reply bytes or their absence; an asynchronous panic, crash or stray memory write is "
                      "a violation too. Transports: /dev/fuse writer (separate and aliased buffers) over an O_APPEND memfd, virtio descriptor chains of random shapes.",
        "level_note": "Reply capacity is always ample (capacity is C01's quantifier). The /dev/fuse stand-in is a memfd because the asynchronous writer uses pwrite(); it records the "
                      "concatenation of all writes, not their boundaries, so 'one write call per reply' is not checked here (C01 checks it for the synchronous path). open/create never "
                      "return a passthrough backing id in these runs: the asynchronous trait cannot express one. The return value of the handlers is compared only as a counter.",
        "rule": "evaluations = request byte strings run through both handlers; distinct = (opcode, mutation class, transport, filesystem method reached, outcome class, number of replies, protocol minor).",
        "assumptions": ["io_uring or the tokio fallback of the crate's async_runtime is usable in the sandbox", "kernel layout table from /usr/include/linux/fuse.h"],
    },
    "C16": {
        "level": "exploration",
        "stages": c16_stages,
        "floor": 500,
        "technique": "runtime monitoring: directory replies decoded with the kernel layout and compared with the host listing / a reference enumeration over random "
                     "directory contents, request sizes from 'fits exactly one entry' upwards and random resume patterns; reference-count hook for READDIRPLUS",
        "level_text": "Directories of 0..3000 entries (names 1-255 bytes, files/dirs/symlinks/fifos) served by a standalone passthrough, a VFS-wrapped passthrough "
                      "and VFS pseudo directories with 0-40 mount points, with and without opendir. A large-buffer enumeration must equal the host listing "
                      "(names, d_type, no dot entries, non-zero offsets, empty terminating reply); enumerations with the minimal size, minimal+random, "
                      "2x and 4096 on the same and on other handles must reproduce the same sequence; resuming at the offset of a random k-th entry must "
                      "continue with entry k+1; no reply exceeds its size or ends inside an entry; READDIRPLUS changes reference counts by exactly the "
                      "number of times an inode was delivered.",
        "level_note": "Sizes start at the size of the largest entry of the directory (the statement's 'can hold at least the next entry'). The NFS-cookie fallback "
                      "(offset > i64::MAX) is unreachable on local ext4 and only covered by the crate's own unit tests.",
        "rule": "evaluations = directories x targets; distinct = (target kind, plus, entry-count class, size mode, minimal size class).",
        "assumptions": ["ext4 hash-ordered directory offsets are stable for an unchanged directory"],
    },
    "C18": {
        "level": "exploration",
        "stages": c18_stages,
        "floor": 1000,
        "technique": "runtime monitoring: invariant monitor (stat of every pre-existing file after every request) on a size-sealed passthrough export driven by "
                     "raw hostile requests, plus differential against an unsealed twin instance on a twin directory",
        "level_text": "Random raw requests (OPEN/CREATE with every access mode x O_TRUNC/O_APPEND/O_CREAT/O_NONBLOCK, WRITE at offsets and lengths around each "
                      "size boundary with per-request flags toggling O_APPEND, SETATTR(SIZE) with and without handle, FALLOCATE in valid and invalid modes, READ, "
                      "RELEASE) against files of sizes 0/1/100/4096/5000, with and without no_open / writeback. After every request each pre-existing file is "
                      "stat'ed (witness = the request after which a size differs). The same requests go to an unsealed twin: what changes a size there must "
                      "have been refused here; what stays within the size must give the same reply and content.",
        "level_note": "Equivalence with the unsealed twin is only demanded for request classes that cannot change a size (reads, in-range non-append writes, "
                      "non-truncating opens); truncating opens and fallocate modes may be refused conservatively.",
        "rule": "case = one history of 20-80 requests; evaluations = requests; distinct = (request kind, access/trunc/append bits, offset vs size, fits/beyond, "
                "sealed errno, unsealed errno, no_open).",
        "assumptions": ["ext4 scratch directory under /verif/scratch", "runs as root"],
    },
    "C12": {
        "level": "exploration",
        "stages": c12_stages,
        "floor": 1000,
        "technique": "runtime monitoring: INIT replies checked against a protocol-derived negotiation oracle over randomized (major, minor, flags, flags2, "
                     "extension presence, filesystem want set); behaviour probes of real VFS / passthrough / overlay stacks after INIT (switches observed through "
                     "the client, compared with the features the INIT reply carries)",
        "level_text": "Random and boundary INIT requests (major 6/7/8/other, minors around every layout boundary, full / legacy / truncated bodies, "
                      "random capability words) against scripted filesystem option sets; the reply is decoded with the kernel layout and the set of "
                      "features the client would honour (extended bits only with FUSE_INIT_EXT) must equal offered AND wanted, with the reply size of "
                      "the client's minor, version-mismatch handling, max_write/max_pages limits and exactly one filesystem init call. "
                      "Stage stack-toggles: random switch settings of a standalone passthrough, a VFS (random no_open/no_opendir/no_writeback/killpriv_v2 and "
                      "out_opts subsets) with a passthrough mounted at / or /m before or after INIT, and a standalone overlay, each negotiated by a client of minor "
                      "23..38 offering a random subset of the features that exist at its minor; afterwards OPEN/OPENDIR answering ENOSYS, an O_WRONLY handle being "
                      "readable, WRITE|KILL_SUIDGID and OPEN(O_TRUNC)|KILL_SUIDGID clearing setuid for root, and FUSE_ATTR_DAX in LOOKUP replies must each imply the "
                      "corresponding bit in the INIT reply as the client reads it; a second INIT to the VFS must be refused and change none of the answers.",
        "level_note": "The negotiation rule is the harness' reading of the uapi header and fs/fuse/inode.c (process_init_reply); FUSE_HAS_RESEND (bit 39) "
                      "is newer than the installed header.",
        "rule": "case = one INIT; distinct = (major class, minor class, extension present, INIT_EXT offered, extended bits wanted, extended bits offered, "
                "init error, transport). All cases non-trivial.",
        "assumptions": ["kernel layout table from /usr/include/linux/fuse.h (7.38)"],
    },
    "C02": {
        "level": "exploration",
        "technique": "runtime monitoring: differential decode oracle (kernel-layout client vs logging filesystem) over randomized requests; Miri on the virtio path",
        "level_text": "Randomised, boundary-biased requests for every opcode are encoded with a layout table generated from the kernel header "
                      "(not the crate's structs), run through the real Server::handle_message over all transports, and the logging filesystem's "
                      "call log is compared argument by argument with what the protocol says the request denotes. Sampling, not enumeration: "
                      "held on K executions; a subset also runs under Miri for UB in the decode path.",
        "level_note": "Trusts the installed uapi header (7.38) as the protocol definition and the harness' per-opcode expectation table; x86_64 only.",
        "stages": c02_stages,
        "floor": 1000,
        "rule": "one well-formed request per case, opcode cycling over all 47 kernel opcodes, every field drawn boundary-biased "
                "(0,1,max,max-1,sign boundary,powers of two,random), assembled at kernel-header offsets; executed through Server::handle_message "
                "over fusedev / fusedev-aliased / virtio (random descriptor chains); oracle = protocol table (expected method + every argument) "
                "vs ScriptFs call log. distinct = (opcode, flag-bit combination and name/payload length classes, transport/segmentation class, "
                "result class); all cases are non-trivial (each reaches the decoder).",
        "assumptions": ["kernel layout table generated from /usr/include/linux/fuse.h (7.38)", "x86_64 little endian",
                        "FUSE_SETXATTR_EXT never negotiated, so SETXATTR uses the 8-byte compat header"],
    },
    "C03": {
        "level": "exploration",
        "technique": "runtime monitoring: reply bytes decoded by kernel layout and compared with the scripted filesystem result; Miri on the virtio path",
        "level_text": "For scripted results of every variant (entries, attrs, handles, payloads, xattrs, locks, statfs, directory streams, every errno, "
                      "non-OS error kinds) the emitted reply is decoded with the kernel-derived layout and must carry exactly the returned values; "
                      "directory replies are parsed entry by entry; notifications are checked on the /dev/fuse writer. Sampled, seeded, replayable.",
        "level_note": "Trusts the installed uapi header (7.38) plus two newer constants (backing_id word, NOTIFY_RESEND=7); capacity is always sufficient here "
                      "(capacity sweeps belong to C01).",
        "stages": c03_stages,
        "floor": 1000,
        "rule": "one request per case with a scripted filesystem result (all result variants, errno sweep 1..133, 20 non-OS error kinds, "
                "boundary-biased fields); reply decoded with the kernel layout and compared field by field with the returned value; "
                "plus a directory sweep (names 1..255, requested sizes around entry boundaries, READDIR/READDIRPLUS) and the three notification "
                "messages. distinct = (opcode, result class, errno/kind or delivered-entry class, transport, negotiated minor); trivial = requests "
                "for which the filesystem is never consulted (INTERRUPT, COPY_FILE_RANGE).",
        "assumptions": ["kernel layout table generated from /usr/include/linux/fuse.h (7.38)", "fuse_open_out third word is backing_id (uapi 7.40)",
                        "FUSE_NOTIFY_RESEND = 7 (uapi 7.40, newer than the installed header)"],
    },
}

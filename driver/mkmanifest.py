#!/usr/bin/env python3
"""Regenerate /verif/MANIFEST.json from driver/props.py (development helper; run by hand)."""
import json
import os
import subprocess
import sys

VERIF = os.path.dirname(os.path.dirname(os.path.abspath(__file__)))
sys.path.insert(0, os.path.join(VERIF, "driver"))
from props import PROPS  # noqa: E402

props = [json.loads(l) for l in open(os.path.join(VERIF, "properties.jsonl"))]
hook_commits = []
try:
    out = subprocess.run(["git", "-C", "/repo", "log", "--format=%H %s"], stdout=subprocess.PIPE, text=True).stdout
    for line in out.splitlines():
        h, s = line.split(" ", 1)
        if s.startswith("verif-hook:"):
            hook_commits.append(h)
except Exception:
    pass

checks = []
na = []
for p in props:
    pid = p["id"]
    if pid in PROPS and PROPS[pid].get("registered", True):
        c = PROPS[pid]
        checks.append({
            "property_id": pid,
            "quick_cmd": "./check %s --tier quick" % pid,
            "thorough_cmd": "./check %s --tier thorough" % pid,
            "evidence_file": "/verif/evidence/%s.json" % pid,
            "replay_cmd_template": "./check %s --replay {path}" % pid,
            "engine": c.get("engine", "vkit"),
            "level_claimed": {"category": c["level"], "text": c["level_text"], "design_ref": "DESIGN.md §4 %s" % pid},
            "level_note": c["level_note"],
            "technique": c["technique"],
        })
    else:
        na.append({"property_id": pid, "reason": "check not built yet (work in progress; the technique applies, see DESIGN.md)"})

m = {
    "version": 1,
    "setup_cmd": "./check --setup",
    "hooks": {
        "guard": "fuse_backend_rs_verif",
        "enable": "rustc --cfg fuse_backend_rs_verif (set in /verif/harness/.cargo/config.toml [build] rustflags; sanitizer builds pass it through RUSTFLAGS)",
        "baseline_off_cmd": "cd /repo && cargo test --workspace --no-fail-fast --offline",
        "source_commits": hook_commits,
        "add_only": True,
    },
    "engines": [
        {"name": "vkit", "path": "/verif/harness", "serves_properties": [c["property_id"] for c in checks],
         "kind_free_text": "Rust harness workspace (in-process FUSE client with kernel-derived codec, canary transports, scripted logging filesystem, "
                           "differential/model oracles) driven by /verif/driver/check.py: sharded native runs + Miri / ASan / TSan / valgrind stages"},
    ],
    "checks": checks,
    "not_applicable": na,
    "notes": "Technique family: runtime monitoring and sanitizers. Every verdict comes from oracles observing executions of the real crate built "
             "from /repo's working tree. Verdicts are three-valued; INCONCLUSIVE lines never become VIOLATION. Known findings: /verif/known_findings.txt.",
}
if not na:
    m["not_applicable"] = []
json.dump(m, open(os.path.join(VERIF, "MANIFEST.json"), "w"), indent=1)
print("MANIFEST.json: %d checks, %d not_applicable" % (len(checks), len(na)))

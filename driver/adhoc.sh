#!/bin/bash
# usage: adhoc.sh <pkg> <ID> <seed> <cases> [extra...]  -- run one shard by hand and summarise
pkg=$1; id=$2; seed=$3; cases=$4; shift 4
d=/verif/scratch/adhoc-$$; mkdir -p $d
/verif/target/release/$pkg $id --seed $seed --cases $cases --scratch=$d "$@" 2>&1 | python3 -c "
import sys,json,collections
c=collections.Counter(); first={}
for l in sys.stdin:
    if l.startswith('VIOLATION-CASE'):
        d=json.loads(l[15:]); c[d['sig']]+=1; first.setdefault(d['sig'],d)
    elif l.startswith(('INCONCL','HARNESS','SUMMARY')): print(l[:600].rstrip())
for s,n in c.items():
    d=first[s]; print(n,s,'idx',d['index']); print('   ',json.dumps(d['detail'])[:1500])
"
rm -rf $d

#!/usr/bin/env python3
"""Driver for the runtime monitors of /verif (see DESIGN.md §1, §9).

  ./check --setup
  ./check <ID> [--tier quick|thorough]        (env VERIF_SEED, VERIF_TIER)
  ./check <ID> --replay <path>

Exit 0: nothing violated and the core monitor met its observation floor.
Exit 1: an observed, replayable violation (VIOLATION property=<id> replay=<path>).
Exit 2: the check decided nothing (build failure, no events) -- a broken check, not a verdict.
"""
import json
import os
import shutil
import subprocess
import sys
import time
from concurrent.futures import ThreadPoolExecutor

VERIF = os.path.dirname(os.path.dirname(os.path.abspath(__file__)))
sys.path.insert(0, os.path.join(VERIF, "driver"))
from props import PROPS  # noqa: E402

HARNESS = os.path.join(VERIF, "harness")
TARGET = os.path.join(VERIF, "target")
SCRATCH = os.path.join(VERIF, "scratch")
REPLAYS = os.path.join(VERIF, "replays")
EVIDENCE = os.path.join(VERIF, "evidence")
KNOWN = os.path.join(VERIF, "known_findings.txt")
NCPU = os.cpu_count() or 8
GUARD_CFG = "--cfg fuse_backend_rs_verif"

ENV_BASE = dict(os.environ)
ENV_BASE.update({"CARGO_NET_OFFLINE": "true", "CARGO_TERM_COLOR": "never"})
# The toolchains and the offline crate cache live under root's home. Do not depend on $HOME pointing there:
# with another HOME rustup finds no default toolchain ("rustup could not choose a version of cargo to run")
# and cargo finds no registry cache.
for _var, _path in (("RUSTUP_HOME", "/root/.rustup"), ("CARGO_HOME", "/root/.cargo")):
    if _var not in ENV_BASE and os.path.isdir(_path):
        ENV_BASE[_var] = _path
if os.path.isdir("/root/.cargo/bin") and "/root/.cargo/bin" not in ENV_BASE.get("PATH", "").split(":"):
    ENV_BASE["PATH"] = "/root/.cargo/bin:" + ENV_BASE.get("PATH", "/usr/local/bin:/usr/bin:/bin")


def log(msg):
    print(msg, flush=True)


# ------------------------------------------------------------------------------------------------
# builds
# ------------------------------------------------------------------------------------------------

def build_cmd(kind, pkg, features):
    feat = ["--features", ",".join(features)] if features else []
    if kind == "native":
        return (["cargo", "build", "--release", "-p", pkg] + feat, {}, os.path.join(TARGET, "release"))
    if kind == "checked":
        return (["cargo", "build", "--profile", "checked", "-p", pkg] + feat, {}, os.path.join(TARGET, "checked"))
    if kind == "asan":
        env = {"RUSTFLAGS": GUARD_CFG + " -Zsanitizer=address -Cforce-frame-pointers=yes"}
        td = os.path.join(TARGET, "asan")
        return (["cargo", "+nightly", "build", "--release", "-p", pkg, "--target", "x86_64-unknown-linux-gnu", "--target-dir", td] + feat, env,
                os.path.join(td, "x86_64-unknown-linux-gnu", "release"))
    if kind == "tsan":
        env = {"RUSTFLAGS": GUARD_CFG + " -Zsanitizer=thread"}
        td = os.path.join(TARGET, "tsan")
        return (["cargo", "+nightly", "build", "--release", "-p", pkg, "-Zbuild-std", "--target", "x86_64-unknown-linux-gnu", "--target-dir", td] + feat,
                env, os.path.join(td, "x86_64-unknown-linux-gnu", "release"))
    raise ValueError(kind)


_built = {}


def build(kind, pkg, features=()):
    key = (kind, pkg, tuple(features))
    if key in _built:
        return _built[key]
    cmd, env, outdir = build_cmd(kind, pkg, list(features))
    e = dict(ENV_BASE)
    e.update(env)
    t0 = time.time()
    p = subprocess.run(cmd, cwd=HARNESS, env=e, stdout=subprocess.PIPE, stderr=subprocess.STDOUT, text=True)
    if p.returncode != 0:
        log("BUILD-FAILED kind=%s pkg=%s\n%s" % (kind, pkg, p.stdout[-6000:]))
        _built[key] = None
        return None
    log("built %s/%s in %.1fs" % (kind, pkg, time.time() - t0))
    _built[key] = outdir
    return outdir


# ------------------------------------------------------------------------------------------------
# known findings
# ------------------------------------------------------------------------------------------------

def load_known():
    """Lines: 'open: property=<id> sig=<sig> <what>' | 'fixed: property=<id> <commit> <what>'."""
    opens = []
    if os.path.exists(KNOWN):
        for line in open(KNOWN):
            line = line.strip()
            if line.startswith("open:"):
                parts = line[5:].split()
                d = {"what": ""}
                rest = []
                for p in parts:
                    if p.startswith("property=") and "property" not in d:
                        d["property"] = p[9:]
                    elif p.startswith("sig=") and "sig" not in d:
                        d["sig"] = p[4:]
                    else:
                        rest.append(p)
                d["what"] = " ".join(rest)
                opens.append(d)
    return opens


# ------------------------------------------------------------------------------------------------
# running shards
# ------------------------------------------------------------------------------------------------

class ShardResult:
    def __init__(self):
        self.violations = []
        self.inconclusive = []
        self.keys = set()
        self.summary = None
        self.rc = None
        self.timed_out = False
        self.progress = ""
        self.tail = ""
        self.reports = []  # sanitizer report blocks


def run_shard(argv, env, timeout, progress_path, cwd=None):
    res = ShardResult()
    e = dict(ENV_BASE)
    e.update(env or {})
    try:
        p = subprocess.run(argv, env=e, cwd=cwd, stdout=subprocess.PIPE, stderr=subprocess.PIPE, timeout=timeout)
        res.rc = p.returncode
        out = p.stdout.decode("utf-8", "replace")
        err = p.stderr.decode("utf-8", "replace")
    except subprocess.TimeoutExpired as ex:
        res.timed_out = True
        out = (ex.stdout or b"").decode("utf-8", "replace")
        err = (ex.stderr or b"").decode("utf-8", "replace")
    for line in out.splitlines():
        if line.startswith("VIOLATION-CASE "):
            try:
                res.violations.append(json.loads(line[15:]))
            except Exception:
                res.inconclusive.append({"what": "unparsable-violation", "detail": line[:400]})
        elif line.startswith("INCONCLUSIVE "):
            try:
                res.inconclusive.append(json.loads(line[13:]))
            except Exception:
                pass
        elif line.startswith("KEYS "):
            res.keys.update(line[5:].split(","))
        elif line.startswith("SUMMARY "):
            res.summary = json.loads(line[8:])
    res.tail = (out[-1500:] + "\n--stderr--\n" + err[-4000:])
    res.stderr = err
    if progress_path and os.path.exists(progress_path):
        try:
            res.progress = open(progress_path).read().strip()
        except Exception:
            pass
    return res


def merge_counters(dst, src):
    for k, v in (src or {}).items():
        dst[k] = dst.get(k, 0) + v


class Agg:
    def __init__(self, pid, tier, seed):
        self.pid = pid
        self.tier = tier
        self.seed = seed
        self.evaluations = 0
        self.trivial = 0
        self.keys = set()
        self.counters = {}
        self.samples = []
        self.violations = []   # dicts incl. stage info
        self.inconclusive = []
        self.stages = []


def run_stage(agg, stage, scratch):
    """Run one stage (a set of shards of one binary under one build kind)."""
    kind = stage.get("kind", "native")
    name = stage["name"]
    t0 = time.time()
    info = {"stage": name, "kind": kind}
    nshards = stage.get("shards", NCPU)
    cases = stage["cases"]
    timeout = stage.get("timeout", 900)
    extra = ["--%s=%s" % (k, v) for k, v in stage.get("args", {}).items()]
    env = dict(stage.get("env", {}))
    jobs = []
    if kind in ("native", "checked", "asan", "tsan"):
        outdir = build(kind, stage["pkg"], stage.get("features", ()))
        if outdir is None:
            if kind in ("native",):
                info["status"] = "build-failed"
                agg.stages.append(info)
                return "broken"
            info["status"] = "sanitizer_unavailable"
            agg.inconclusive.append({"what": "%s: build unavailable" % name})
            agg.stages.append(info)
            return "inconclusive"
        exe = os.path.join(outdir, stage["bin"])
        if kind == "asan":
            env.setdefault("ASAN_OPTIONS", "detect_leaks=0:halt_on_error=1:abort_on_error=0:exitcode=77")
        if kind == "tsan":
            env.setdefault("TSAN_OPTIONS", "halt_on_error=0:exitcode=66:second_deadlock_stack=1")
        for k in range(nshards):
            prog = os.path.join(scratch, "%s-%d.progress" % (name, k))
            argv = [exe, stage["prop"], "--seed", str(agg.seed), "--shard", str(k), "--nshards", str(nshards), "--cases", str(cases),
                    "--tier", agg.tier, "--progress", prog] + extra
            jobs.append((argv, env, prog, None))
    elif kind == "valgrind":
        outdir = build("native", stage["pkg"], stage.get("features", ()))
        if outdir is None:
            info["status"] = "build-failed"
            agg.stages.append(info)
            return "broken"
        exe = os.path.join(outdir, stage["bin"])
        for k in range(nshards):
            prog = os.path.join(scratch, "%s-%d.progress" % (name, k))
            argv = ["valgrind", "--tool=memcheck", "--error-exitcode=78", "--leak-check=no", "--num-callers=24", "-q", exe, stage["prop"],
                    "--seed", str(agg.seed), "--shard", str(k), "--nshards", str(nshards), "--cases", str(cases), "--tier", agg.tier,
                    "--progress", prog] + extra
            jobs.append((argv, env, prog, None))
    elif kind == "miri":
        td = os.path.join(TARGET, "miri")
        feat = ["--features", ",".join(stage["features"])] if stage.get("features") else []
        base = ["cargo", "+nightly", "miri", "run", "-q", "-p", stage["pkg"], "--bin", stage["bin"], "--target-dir", td] + feat + ["--"]
        env.setdefault("MIRIFLAGS", "-Zmiri-disable-isolation -Zmiri-permissive-provenance")
        env.setdefault("RUSTFLAGS", GUARD_CFG)
        # warm build (serialised), then shards in parallel
        warm = run_shard(base + [stage["prop"], "--seed", "1", "--cases", "0"], env, stage.get("build_timeout", 900), None, cwd=HARNESS)
        if warm.rc != 0 or warm.summary is None:
            info["status"] = "miri_unavailable"
            info["detail"] = warm.tail[-1500:]
            agg.inconclusive.append({"what": "%s: miri build/run unavailable" % name, "detail": warm.tail[-600:]})
            agg.stages.append(info)
            return "inconclusive"
        for k in range(nshards):
            argv = base + [stage["prop"], "--seed", str(agg.seed), "--shard", str(k), "--nshards", str(nshards), "--cases", str(cases), "--tier", agg.tier] + extra
            jobs.append((argv, env, None, HARNESS))
    else:
        raise ValueError(kind)

    with ThreadPoolExecutor(max_workers=min(NCPU, len(jobs))) as ex:
        futs = [ex.submit(run_shard, argv, env_, timeout, prog, cwd) for (argv, env_, prog, cwd) in jobs]
        results = [f.result() for f in futs]

    evals = 0
    ok_shards = 0
    reports = 0
    for k, r in enumerate(results):
        if r.summary is not None:
            ok_shards += 1
            evals += r.summary.get("evaluations", 0)
            agg.trivial += r.summary.get("trivial", 0)
            merge_counters(agg.counters, {("%s:%s" % (name, kk) if kind != "native" else kk): vv for kk, vv in r.summary.get("counters", {}).items()})
            for s in r.summary.get("samples", []):
                if len(agg.samples) < 4 and kind == "native":
                    agg.samples.append(s)
        agg.keys.update(("%s" % x) for x in r.keys)
        for v in r.violations:
            v["stage"] = name
            v["stage_args"] = stage.get("args", {})
            v["tier"] = agg.tier
            v["cases"] = cases
            v["bin"] = stage["bin"]
            v["pkg"] = stage.get("pkg")
            agg.violations.append(v)
        for i in r.inconclusive:
            i["stage"] = name
            agg.inconclusive.append(i)
        if r.timed_out:
            agg.inconclusive.append({"what": "%s shard %d: watchdog timeout after %ds" % (name, k, timeout), "progress": r.progress})
            continue
        # process died without a summary, or a sanitizer/Miri report
        crashed = r.summary is None
        san_report = (kind == "asan" and r.rc == 77) or (kind == "tsan" and r.rc == 66) or (kind == "valgrind" and r.rc == 78) or \
                     (kind == "miri" and ("Undefined Behavior" in r.stderr or "error: unsupported operation" in r.stderr or "data race" in r.stderr.lower()))
        if san_report or crashed:
            idx = None
            note = ""
            if r.progress:
                parts = r.progress.split(None, 1)
                try:
                    idx = int(parts[0])
                except Exception:
                    idx = None
                note = parts[1].strip() if len(parts) > 1 else ""
            what = first_report_line(kind, r.stderr)
            if "HARNESS-PANIC" in r.stderr:
                # a bug of the harness itself: never a verdict about the crate
                agg.inconclusive.append({"what": "%s shard %d: harness panic" % (name, k), "detail": what, "progress": r.progress})
                continue
            if kind == "miri" and "unsupported operation" in r.stderr and "Undefined Behavior" not in r.stderr:
                agg.inconclusive.append({"what": "%s shard %d: miri unsupported operation" % (name, k), "detail": what})
                continue
            if stage.get("crash_is_violation", False) or san_report:
                reports += 1
                frame = first_repo_frame(r.stderr)
                sig = "%s:%s:%s:%s" % (agg.pid, kind, "report" if san_report else "crash", frame or what[:60].replace(" ", "_"))
                agg.violations.append({"property": agg.pid, "sig": sig, "index": idx if idx is not None else -1, "stage": name, "bin": stage["bin"],
                                       "pkg": stage.get("pkg"), "stage_args": stage.get("args", {}), "kind": kind, "shard": k, "nshards": nshards,
                                       "detail": {"why": what, "rc": r.rc, "case_in_flight": note, "stderr_tail": r.stderr[-3000:]}})
            else:
                agg.inconclusive.append({"what": "%s shard %d exited rc=%s without summary" % (name, k, r.rc), "progress": r.progress, "detail": r.tail[-800:]})
    agg.evaluations += evals
    info.update({"status": "ran", "shards": len(jobs), "shards_completed": ok_shards, "evaluations": evals, "reports": reports, "wall_s": round(time.time() - t0, 1)})
    agg.stages.append(info)
    if ok_shards == 0:
        return "broken" if kind == "native" else "inconclusive"
    return "ok"


def first_report_line(kind, err):
    for line in err.splitlines():
        if "ERROR: AddressSanitizer" in line or "WARNING: ThreadSanitizer" in line or "Undefined Behavior" in line or "panicked at" in line \
                or line.startswith("==") and ("Invalid" in line or "uninitialised" in line) or "error:" in line:
            return line.strip()[:300]
    return (err.strip().splitlines() or ["<no output>"])[-1][:300]


def first_repo_frame(err):
    for line in err.splitlines():
        if "/repo/src/" in line:
            i = line.index("/repo/src/")
            frag = line[i + 6:].split()[0]
            return frag.split(":")[0] + ":" + (frag.split(":")[1] if ":" in frag else "")
    return None


# ------------------------------------------------------------------------------------------------
# main check flow
# ------------------------------------------------------------------------------------------------

def write_replay(pid, v, seed):
    os.makedirs(os.path.join(REPLAYS, pid), exist_ok=True)
    sig = "".join(c if c.isalnum() or c in "-_." else "_" for c in v.get("sig", "x"))[:80]
    path = os.path.join(REPLAYS, pid, "%s-%d-%s.json" % (sig, seed, v.get("index", 0)))
    rec = {"property": pid, "seed": seed, "index": v.get("index"), "sig": v.get("sig"), "stage": v.get("stage"), "bin": v.get("bin"),
           "pkg": v.get("pkg"), "kind": v.get("kind", "native"), "stage_args": v.get("stage_args", {}), "tier": v.get("tier", "quick"), "cases": v.get("cases"), "detail": v.get("detail")}
    with open(path, "w") as f:
        json.dump(rec, f, indent=1)
    return path


def do_check(pid, tier, seed):
    t0 = time.time()
    if pid not in PROPS:
        log("unknown property %s" % pid)
        return 2
    cfg = PROPS[pid]
    scratch = os.path.join(SCRATCH, "%s-%d" % (pid, os.getpid()))
    shutil.rmtree(scratch, ignore_errors=True)
    os.makedirs(scratch, exist_ok=True)
    os.makedirs(EVIDENCE, exist_ok=True)
    agg = Agg(pid, tier, seed)
    status = "ok"
    try:
        stages = cfg["stages"](tier)
        for st in stages:
            st = dict(st)
            st.setdefault("args", {})
            st["args"] = dict(st["args"])
            st["args"].setdefault("scratch", scratch)
            r = run_stage(agg, st, scratch)
            if r == "broken" and st.get("core", False):
                status = "broken"
                break
    finally:
        shutil.rmtree(scratch, ignore_errors=True)

    known = [k for k in load_known() if k.get("property") == pid]
    new_violations = []
    known_hit = {}
    seen = set()
    for v in agg.violations:
        sig = v.get("sig", "")
        if sig in seen:
            continue
        seen.add(sig)
        match = next((k for k in known if k.get("sig") == sig), None)
        if match:
            known_hit[sig] = match
        else:
            new_violations.append(v)
    for sig, k in known_hit.items():
        log("KNOWN-FINDING: property=%s %s (sig=%s)" % (pid, k["what"], sig))
    for k in known:
        if k["sig"] not in known_hit:
            log("NOTE: known finding sig=%s was not reproduced in this run" % k["sig"])
    for i in agg.inconclusive[:20]:
        log("INCONCLUSIVE: %s" % (i.get("what") if isinstance(i, dict) else i))
    replay_paths = []
    for v in new_violations:
        p = write_replay(pid, v, seed)
        replay_paths.append(p)
        log("VIOLATION property=%s replay=%s" % (pid, p))
        log("  sig=%s why=%s" % (v.get("sig"), str((v.get("detail") or {}).get("why"))[:400]))

    floor = cfg.get("floor", 1)
    observed_enough = agg.evaluations - agg.trivial >= floor and len(agg.keys) >= 2
    wall = time.time() - t0
    ev = {
        "property_id": pid,
        "tier": tier,
        "seed": seed,
        "level": cfg["level"],
        "coverage": {
            "evaluations": agg.evaluations,
            "distinct_nontrivial": len(agg.keys),
            "rule": cfg["rule"],
            "samples": agg.samples[:4] if agg.samples else [{"note": "no sample recorded"}],
            "trivial": agg.trivial,
            "counters": dict(sorted(agg.counters.items())[:400]),
            "stages": agg.stages,
            "inconclusive": [(i.get("what") if isinstance(i, dict) else str(i)) for i in agg.inconclusive[:40]],
            "known_findings_reproduced": sorted(known_hit.keys()),
            "verdict": "violated" if new_violations else ("held on what was observed" if observed_enough and status == "ok" else "inconclusive"),
            "exhaustive": bool(cfg.get("exhaustive", False)),
        },
        "assumptions": cfg.get("assumptions", []),
        "wall_s": round(wall, 2),
        "violations": len(new_violations),
    }
    if "explanation" in cfg:
        ev["coverage"]["explanation"] = cfg["explanation"]
    with open(os.path.join(EVIDENCE, "%s.json" % pid), "w") as f:
        json.dump(ev, f, indent=1)
    log("%s tier=%s seed=%d evaluations=%d distinct=%d violations=%d inconclusive=%d wall=%.1fs" %
        (pid, tier, seed, agg.evaluations, len(agg.keys), len(new_violations), len(agg.inconclusive), wall))
    if new_violations:
        return 1
    if status == "broken" or not observed_enough:
        log("CHECK-BROKEN: %s decided nothing (status=%s, evaluations=%d, floor=%d)" % (pid, status, agg.evaluations, floor))
        return 2
    return 0


def do_replay(pid, path):
    rec = json.load(open(path))
    cfg = PROPS[pid]
    seed = rec["seed"]
    stages = cfg["stages"]("quick") + cfg["stages"]("thorough")
    st = next((s for s in stages if s["name"] == rec.get("stage")), None) or next((s for s in stages if s.get("bin") == rec.get("bin")), stages[0])
    kind = st.get("kind", "native")
    if kind not in ("native", "checked"):
        kind = "native"
    outdir = build(kind, st["pkg"], st.get("features", ()))
    if outdir is None:
        return 2
    scratch = os.path.join(SCRATCH, "replay-%d" % os.getpid())
    os.makedirs(scratch, exist_ok=True)
    args = dict(rec.get("stage_args") or st.get("args", {}))
    args["scratch"] = scratch
    extra = ["--%s=%s" % (k, v) for k, v in args.items()]
    # the tier and case count of the run that produced the record (they shape the case: e.g. history lengths)
    argv = [os.path.join(outdir, st["bin"]), st["prop"], "--seed", str(seed), "--only", str(rec["index"]), "--cases", str(rec.get("cases") or st["cases"]),
            "--tier", rec.get("tier", "quick")] + extra
    log("replaying: " + " ".join(argv))
    try:
        r = run_shard(argv, st.get("env", {}), 600, None)
    finally:
        shutil.rmtree(scratch, ignore_errors=True)
    hit = [v for v in r.violations if v.get("sig") == rec.get("sig")] or r.violations
    if hit:
        log(json.dumps(hit[0], indent=1)[:6000])
        log("VIOLATION property=%s replay=%s" % (pid, path))
        return 1
    if r.summary is None:
        log("replay: process ended without summary (rc=%s)\n%s" % (r.rc, r.tail))
        return 1 if rec.get("kind") in ("asan", "valgrind", "miri", "tsan") or "crash" in (rec.get("sig") or "") else 2
    log("replay: no violation reproduced")
    return 0


def do_setup():
    pkgs = sorted({(s["pkg"], tuple(s.get("features", ()))) for p in PROPS.values() for s in p["stages"]("quick") if s.get("kind", "native") in ("native", "valgrind")})
    ok = True
    for pkg, feat in pkgs:
        if build("native", pkg, feat) is None:
            ok = False
    # warm the Miri builds the quick tier uses (best effort: a Miri stage that cannot run is inconclusive, not broken)
    miri = sorted({(s["pkg"], s["bin"], s["prop"]) for p in PROPS.values() for s in p["stages"]("quick") if s.get("kind") == "miri"})
    seen = set()
    for pkg, binname, prop in miri:
        if pkg in seen:
            continue
        seen.add(pkg)
        env = dict(ENV_BASE)
        env.setdefault("MIRIFLAGS", "-Zmiri-disable-isolation -Zmiri-permissive-provenance")
        env.setdefault("RUSTFLAGS", GUARD_CFG)
        t0 = time.time()
        p = subprocess.run(["cargo", "+nightly", "miri", "run", "-q", "-p", pkg, "--bin", binname, "--target-dir", os.path.join(TARGET, "miri"), "--",
                            prop, "--seed", "1", "--cases", "0"], cwd=HARNESS, env=env, stdout=subprocess.PIPE, stderr=subprocess.STDOUT, text=True)
        log("miri warm-up %s: rc=%d in %.0fs" % (pkg, p.returncode, time.time() - t0))
    return 0 if ok else 2


def main():
    argv = sys.argv[1:]
    if not argv:
        print(__doc__)
        return 2
    if argv[0] == "--setup":
        return do_setup()
    pid = argv[0]
    tier = "quick"
    replay = None
    i = 1
    while i < len(argv):
        if argv[i] == "--tier":
            tier = argv[i + 1]
            i += 2
        elif argv[i] == "--replay":
            replay = argv[i + 1]
            i += 2
        else:
            print("unknown argument", argv[i])
            return 2
    tier = os.environ.get("VERIF_TIER", tier) or tier
    if tier not in ("quick", "thorough"):
        tier = "quick"
    try:
        seed = int(os.environ.get("VERIF_SEED", "1"))
    except ValueError:
        seed = 1
    if replay:
        return do_replay(pid, replay)
    return do_check(pid, tier, seed)


if __name__ == "__main__":
    sys.exit(main())

#!/usr/bin/env python3
"""Development helper (not a registered check): mutation self-test in private lanes.

Each lane is a scratch directory outside /repo and /verif holding a git worktree of /repo and a copy
of /verif whose harness points at that worktree. For every patch: apply it in the lane's worktree,
run the crate's own suite there, run the property's quick check of the lane's /verif copy, record
whether it raised a VIOLATION, restore the worktree. Lanes run in parallel; they and their build
output are removed at the end. Nothing touches /repo's working tree.

usage: lanes_mutants.py [--lanes N] [--dir mutants|seeded] [--out FILE] [name-glob ...]
"""
import fnmatch
import glob
import json
import os
import re
import shutil
import subprocess
import sys
import threading
import time

VERIF = "/verif"
REPO = "/repo"
BASE = os.environ.get("VLANES_BASE", "/tmp/vlanes")


def sh(cmd, cwd=None, env=None, timeout=None):
    p = subprocess.run(cmd, cwd=cwd, env=env, stdout=subprocess.PIPE, stderr=subprocess.STDOUT, text=True, timeout=timeout)
    return p.returncode, p.stdout


def make_lane(k):
    root = os.path.join(BASE, "lane%d" % k)
    shutil.rmtree(root, ignore_errors=True)
    os.makedirs(root)
    repo = os.path.join(root, "repo")
    subprocess.run(["git", "-C", REPO, "worktree", "prune"], check=False)
    rc, out = sh(["git", "-C", REPO, "worktree", "add", "--detach", "-f", repo, "HEAD"])
    if rc != 0:
        raise RuntimeError(out)
    verif = os.path.join(root, "verif")
    sh(["rsync", "-a", "--exclude", "target", "--exclude", "scratch", "--exclude", "replays", "--exclude", ".git", "--exclude", "seeded", VERIF + "/", verif + "/"])
    for path in glob.glob(verif + "/harness/*/Cargo.toml") + [verif + "/harness/.cargo/config.toml"]:
        s = open(path).read()
        s = s.replace('path = "/repo"', 'path = "%s"' % repo).replace('"/verif/target"', '"%s/target"' % verif)
        open(path, "w").write(s)
    return root, repo, verif


def run_one(lane, patch, pid):
    root, repo, verif = lane
    name = os.path.basename(os.path.dirname(patch)) if os.path.basename(patch) == "patch.diff" else os.path.basename(patch)[:-6]
    row = {"name": name, "property": pid}
    rc, out = sh(["git", "-C", repo, "apply", "--check", patch])
    if rc != 0:
        row.update(suite="-", verdict="does not apply", sig="", secs=0)
        return row
    sh(["git", "-C", repo, "apply", patch])
    t0 = time.time()
    try:
        env = dict(os.environ, CARGO_NET_OFFLINE="true")
        rc, out = sh(["cargo", "test", "--workspace", "--offline"], cwd=repo, env=env, timeout=3600)
        m = re.findall(r"test result: (\w+)\. (\d+) passed; (\d+) failed", out)
        if rc == 0:
            row["suite"] = "pass (%s)" % "+".join(x[1] for x in m if int(x[1]))
        else:
            failed = re.findall(r"^test (\S+) \.\.\. FAILED", out, re.M)
            row["suite"] = "FAIL " + ",".join(failed[:3]) if failed else "FAIL (build)"
        rc, out = sh([sys.executable, os.path.join(verif, "driver", "check.py"), pid, "--tier", "quick"], cwd=verif, timeout=7200)
        vio = re.findall(r"^VIOLATION property=\S+ replay=(\S+)", out, re.M)
        sig = ""
        if vio:
            sig = re.sub(r"-\d+-\d+\.json$", "", os.path.basename(vio[0]))
        row["verdict"] = {0: "MISSED", 1: "caught (%d)" % len(vio)}.get(rc, "check inconclusive/broken (exit %d)" % rc)
        row["sig"] = sig
        if rc not in (0, 1):
            row["tail"] = out[-600:]
    finally:
        sh(["git", "-C", repo, "checkout", "--", "."])
        sh(["git", "-C", repo, "clean", "-fdq", "src", "tests"])
    row["secs"] = int(time.time() - t0)
    return row


def main():
    args = sys.argv[1:]
    lanes_n, src, outp = 4, "mutants", None
    globs = []
    while args:
        a = args.pop(0)
        if a == "--lanes":
            lanes_n = int(args.pop(0))
        elif a == "--dir":
            src = args.pop(0)
        elif a == "--out":
            outp = args.pop(0)
        else:
            globs.append(a)
    jobs = []
    if src == "mutants":
        for p in sorted(glob.glob(VERIF + "/mutants/*.patch")):
            n = os.path.basename(p)[:-6]
            if globs and not any(fnmatch.fnmatch(n, g) for g in globs):
                continue
            jobs.append((p, n.split("-")[0]))
        outp = outp or VERIF + "/mutants/RESULTS.md"
    else:
        for p in sorted(glob.glob(VERIF + "/seeded/*/patch.diff")):
            n = os.path.basename(os.path.dirname(p))
            if globs and not any(fnmatch.fnmatch(n, g) for g in globs):
                continue
            meta = json.load(open(os.path.join(os.path.dirname(p), "meta.json")))
            jobs.append((p, meta["property"]))
        outp = outp or VERIF + "/seeded/RESULTS.md"
    print("%d patches, %d lanes" % (len(jobs), lanes_n), flush=True)
    os.makedirs(BASE, exist_ok=True)
    rows = []
    lock = threading.Lock()
    queue = list(jobs)

    def worker(k):
        lane = make_lane(k)
        try:
            while True:
                with lock:
                    if not queue:
                        return
                    patch, pid = queue.pop(0)
                try:
                    row = run_one(lane, patch, pid)
                except Exception as e:  # noqa: BLE001
                    row = {"name": os.path.basename(patch), "property": pid, "suite": "-", "verdict": "harness error: %s" % e, "sig": "", "secs": 0}
                with lock:
                    rows.append(row)
                    print("%-55s suite=%-22s %s %s (%ds)" % (row["name"], row["suite"], row["verdict"], row["sig"], row["secs"]), flush=True)
        finally:
            subprocess.run(["git", "-C", REPO, "worktree", "remove", "--force", lane[1]], check=False)
            shutil.rmtree(lane[0], ignore_errors=True)

    ts = [threading.Thread(target=worker, args=(k,)) for k in range(min(lanes_n, len(jobs)))]
    for t in ts:
        t.start()
    for t in ts:
        t.join()
    subprocess.run(["git", "-C", REPO, "worktree", "prune"], check=False)
    shutil.rmtree(BASE, ignore_errors=True)
    rows.sort(key=lambda r: r["name"])
    head = subprocess.run(["git", "-C", REPO, "rev-parse", "--short", "HEAD"], stdout=subprocess.PIPE, text=True).stdout.strip()
    with open(outp, "w") as f:
        f.write("# Mutation self-test results (%s)\n\n" % src)
        f.write("Generated by driver/lanes_mutants.py on %s against /repo %s.\n" % (time.strftime("%Y-%m-%d", time.gmtime()), head))
        f.write("Each patch was applied to a scratch git worktree of /repo; the crate's own suite (`cargo test --workspace --offline`) was run there, then the\n"
                "property's quick check of a /verif copy pointed at that worktree. `caught (n)` = exit 1 with n VIOLATION lines (first signature shown);\n"
                "`MISSED` = exit 0.\n\n")
        f.write("| patch | property | crate suite | quick check | first signature | time |\n|---|---|---|---|---|---|\n")
        for r in rows:
            f.write("| %s | %s | %s | %s | %s | %d s |\n" % (r["name"], r["property"], r["suite"], r["verdict"], r["sig"], r["secs"]))
        bad = [r for r in rows if "tail" in r]
        if bad:
            f.write("\n## Inconclusive runs\n\n")
            for r in bad:
                f.write("### %s\n```\n%s\n```\n" % (r["name"], r["tail"]))
    print("wrote", outp)


if __name__ == "__main__":
    main()

#!/bin/bash
# Development helper: apply a patch to /repo, run one or more checks (quick tier), undo the patch.
# usage: driver/try_patch.sh <patch> <ID> [<ID>...]   (env TIER=quick|thorough, VERIF_SEED)
set -u
patch="$(realpath "$1")"; shift
cd /repo || exit 2
if ! git diff --quiet; then echo "try_patch: /repo working tree is dirty"; exit 2; fi
git apply "$patch" || { echo "try_patch: patch does not apply"; exit 2; }
trap 'git -C /repo checkout -- . ; git -C /repo clean -fdq src tests 2>/dev/null' EXIT
cd /verif
rc=0
for id in "$@"; do
  out=$(./check "$id" --tier "${TIER:-quick}" 2>&1)
  code=$?
  echo "== $id exit=$code"
  echo "$out" | grep -E "^(VIOLATION|  sig=|KNOWN-FINDING|CHECK-BROKEN|BUILD-FAILED|C[0-9]+ tier)" | head -12
  [ $code -ne 0 ] && rc=$code
done
exit $rc
